package main

import (
	"encoding/json"
	"fmt"
	"go/ast"
	"go/token"
	"go/types"
	"sort"
	"strings"

	"golang.org/x/tools/go/ssa"
)

func init() {
	register(&PropSpec{
		ID:          "C10",
		Explanation: "Structural necessary conditions for 'Close is final'. T1: every exported sentinel of package errors wraps (%w) another sentinel and the chain reaches ErrISCP; FailedMessageError.Is accepts ErrISCP. O1: every exported method of iscp.Conn that reaches a wire-level send or subscribe does so only behind a dominating closed-guard returning ErrConnectionClosed, or through the retry wrapper whose closed sentinel is feasible (E1); the stream methods return ErrStreamClosed on the closed state. O2: reconnect refuses before dialing when the status is Closed, its retry closure stops on Closed, and the run loop returns when reconnect fails. O3: every path of Conn.close after SendDisconnect closes the wire connection. O5: opening a stream starts a goroutine that waits for connStatusClosed and then cancels the stream. P1: explicit panics in library code are limited to an allowed table (construction-time misuse, unreachable-after-switch); in particular no panic on a lost status race.",
		NotDecided:  []string{"no goroutine left behind (termination of ~40 goroutine sites)", "silence on the wire after Disconnect as observed by the peer", "at-most-once events under concurrent Close", "a buffered item returned by a read after Close"},
		Rules: func(r *Run) {
			ruleC10T1(r)
			ruleC10O1(r)
			ruleE1(r)
			ruleC10O2(r)
			ruleC10O3(r)
			ruleC10O5(r)
			ruleC10P1(r)
			ruleC10O6(r)
			ruleDrainBounds(r, "O7")
			ruleAlwaysCancels(r, "O8")
			r.borrow("C08", func() { ruleD1(r) }) // a dispatch goroutine stuck on an abandoned reply channel survives Close
			ruleC10O11(r)
			ruleC10O14(r)
			ruleC10O15(r)
			ruleC10O16(r)
			ruleC10O17(r)
			ruleSendersOutliveReceivers(r, "O19", "/iscp", "/wire", "/transport/reconnect", "/transport/multi", "/transport/quic", "/transport/webtransport", "/transport/websocket")
			le10 := newLockEngine(r.P)
			ruleC10O18(r, le10)
			ruleW4(r, le10, "O13")
			ruleLockPairingFor(r, le10, "O12", "no lock outlives its function in the connection layer: every function of iscp.Conn that takes a lock releases it on every path (a leaked table mutex makes calls after Close block instead of failing)", func(fn *ssa.Function) bool {
				return fnPkgPath(fn) == modPath+"/iscp" && recvTypeName(topFunc(fn)) == "Conn" && (le10.Info(fn).Events > 0 || len(le10.Info(fn).Reports) > 0)
			}, 10)
			ruleNoAliasAfterTruncate(r, "O10", "/iscp", "/wire")
			ruleCancelFieldsClosed(r, "O9", "/iscp", "/wire", "/transport/", "/transport")
		},
	})
}

func ruleC10T1(r *Run) {
	r.Begin("T1", "sentinels: every exported Err* variable of package errors other than ErrISCP is initialised by an Errorf whose format contains %w and whose wrapped operand is another sentinel, and the chain reaches ErrISCP; FailedMessageError.Is accepts ErrISCP", 8)
	p := r.P
	pk := p.ByPath[modPath+"/errors"]
	if pk == nil {
		r.Undecided("package errors", "not loaded")
		return
	}
	wraps := map[string]string{}
	pos := map[string]token.Pos{}
	for _, f := range pk.Syntax {
		for _, d := range f.Decls {
			gd, ok := d.(*ast.GenDecl)
			if !ok || gd.Tok != token.VAR {
				continue
			}
			for _, sp := range gd.Specs {
				vs := sp.(*ast.ValueSpec)
				for i, nm := range vs.Names {
					if !strings.HasPrefix(nm.Name, "Err") || !nm.IsExported() || i >= len(vs.Values) {
						continue
					}
					pos[nm.Name] = nm.Pos()
					wraps[nm.Name] = ""
					call, ok := vs.Values[i].(*ast.CallExpr)
					if !ok || len(call.Args) < 2 {
						continue
					}
					fmtLit, ok := call.Args[0].(*ast.BasicLit)
					if !ok || !strings.Contains(fmtLit.Value, "%w") {
						continue
					}
					// the %w operand: position among the verbs
					verbs := 0
					wIdx := -1
					s := fmtLit.Value
					for j := 0; j+1 < len(s); j++ {
						if s[j] == '%' {
							if s[j+1] == '%' {
								j++
								continue
							}
							if s[j+1] == 'w' {
								wIdx = verbs
							}
							verbs++
						}
					}
					if wIdx >= 0 && 1+wIdx < len(call.Args) {
						if id, ok := call.Args[1+wIdx].(*ast.Ident); ok {
							wraps[nm.Name] = id.Name
						}
					}
				}
			}
		}
	}
	var names []string
	for n := range wraps {
		names = append(names, n)
	}
	sort.Strings(names)
	for _, n := range names {
		if n == "ErrISCP" {
			continue
		}
		// follow the chain
		cur := n
		ok := false
		chain := []string{n}
		for i := 0; i < 10; i++ {
			nx, has := wraps[cur]
			if !has || nx == "" {
				break
			}
			chain = append(chain, nx)
			if nx == "ErrISCP" {
				ok = true
				break
			}
			cur = nx
		}
		r.Check("sentinel "+n, ok, p.pos(pos[n]), "errors", "wrap chain: "+strings.Join(chain, " -> ")+" (must reach ErrISCP so that errors.Is(err, ErrISCP) recognises library errors)")
	}
	// FailedMessageError.Is
	is := p.Method("/errors", "FailedMessageError", "Is")
	okIs := false
	if is != nil {
		allInstrs(is, func(ins ssa.Instruction) {
			if bo, ok := ins.(*ssa.BinOp); ok && bo.Op == token.EQL {
				if hasLeaf(p.Leaves(bo.Y, provOpts{}), "global:/errors.ErrISCP") || hasLeaf(p.Leaves(bo.X, provOpts{}), "global:/errors.ErrISCP") {
					okIs = true
				}
			}
		})
	}
	r.Check("FailedMessageError.Is", okIs, "", "errors", "FailedMessageError must report itself as ErrISCP")
}

// closedGuardDominates: ins lies on the not-closed edge of a test of isClosed()/state.Is(Closed)
// whose closed edge returns the given sentinel.
func closedGuardDominates(p *Prog, fn *ssa.Function, ins ssa.Instruction, sentinel string) bool {
	closedC, _ := p.enumConst("/iscp", "connStatusClosed")
	ok := false
	allInstrs(fn, func(x ssa.Instruction) {
		ifs, isIf := x.(*ssa.If)
		if !isIf || ok {
			return
		}
		c, isCall := ifs.Cond.(*ssa.Call)
		if !isCall {
			return
		}
		cf := c.Call.StaticCallee()
		if cf == nil {
			return
		}
		isGuard := cf.Name() == "isClosed"
		if !isGuard && recvTypeName(cf) == "connStatus" && cf.Name() == "Is" {
			if v, isC := constInt(c.Call.Args[1]); isC && v == closedC {
				isGuard = true
			}
		}
		if !isGuard {
			return
		}
		if name, isSent := returnsSentinel(ifs.Block().Succs[0]); !isSent || name != sentinel {
			return
		}
		if edgeDominates(ifs.Block(), ifs.Block().Succs[1], ins.Block()) {
			ok = true
		}
	})
	return ok
}

func ruleC10O1(r *Run) {
	r.Begin("O1", "closed before wire: in every exported method of iscp.Conn, each call that reaches a wire-level Send*/Subscribe* is dominated by a closed-guard returning ErrConnectionClosed, or is made through the retry wrapper (send / call), whose closed sentinel must be feasible (rule E1); WriteDataPoints, Flush, ReadDataPoints and ReadMetadata have a return of ErrStreamClosed", 10)
	p := r.P
	conn := r.named("/iscp", "Conn")
	if conn == nil {
		return
	}
	send := p.Method("/iscp", "Conn", "send")
	callFn := p.Method("/iscp", "Conn", "call")
	wireReach := func(fn *ssa.Function) bool {
		found := false
		withAnon(fn, func(f *ssa.Function) {
			allInstrs(f, func(ins ssa.Instruction) {
				n := callName(ins)
				if strings.HasPrefix(n, "/wire.ClientConn.Send") || strings.HasPrefix(n, "/wire.ClientConn.Subscribe") {
					found = true
				}
			})
		})
		return found
	}
	for i := 0; i < conn.NumMethods(); i++ {
		m := conn.Method(i)
		if !m.Exported() || m.Name() == "Close" {
			continue
		}
		fn := p.SSA.FuncValue(m)
		if fn == nil || fn.Blocks == nil {
			continue
		}
		name := fnName(fn)
		allInstrs(fn, func(ins ssa.Instruction) {
			c, ok := ins.(*ssa.Call)
			if !ok {
				return
			}
			n := callName(ins)
			reaches := strings.HasPrefix(n, "/wire.ClientConn.Send") || strings.HasPrefix(n, "/wire.ClientConn.Subscribe")
			viaWrapper := false
			cf := c.Call.StaticCallee()
			if cf != nil && (cf == send || cf == callFn) {
				viaWrapper = true
			} else if cf != nil && p.Analysed(cf) && fnPkgPath(cf) == modPath+"/iscp" && wireReach(cf) {
				reaches = true
				// helpers that themselves go through the wrapper
				if p.reachesCall(cf, 1, "/iscp.Conn.send") && !directWire(cf) {
					viaWrapper = true
				}
			}
			if !reaches && !viaWrapper {
				return
			}
			if viaWrapper {
				r.Check(fmt.Sprintf("%s %s via wrapper", name, n), true, posOf(p, ins), name, "goes through the retry wrapper, which reports ErrConnectionClosed when the status is Closed (E1)")
				return
			}
			g := closedGuardDominates(p, fn, ins, "ErrConnectionClosed")
			r.Check(fmt.Sprintf("%s %s guarded", name, n), g, posOf(p, ins), name, "a wire-level call outside the retry wrapper must be dominated by `if c.isClosed() { return …ErrConnectionClosed }`")
		})
	}
	for _, sm := range []struct{ typ, m string }{{"Upstream", "WriteDataPoints"}, {"Upstream", "Flush"}, {"Downstream", "ReadDataPoints"}, {"Downstream", "ReadMetadata"}} {
		fn := r.method("/iscp", sm.typ, sm.m)
		if fn == nil {
			continue
		}
		has := false
		allInstrs(fn, func(ins ssa.Instruction) {
			if ret, ok := ins.(*ssa.Return); ok {
				for _, res := range retResults(ret) {
					if sentinelName(res) == "ErrStreamClosed" {
						has = true
					}
				}
			}
		})
		r.Check(fnName(fn)+" reports ErrStreamClosed", has, p.pos(fn.Pos()), fnName(fn), "the method must return the documented stream-closed sentinel on the closed state")
		// strict form for the write side: the guard dominates the hand-over to the flush loop
		if sm.typ == "Upstream" {
			var firstSel ssa.Instruction
			allInstrs(fn, func(ins ssa.Instruction) {
				if s, ok := ins.(*ssa.Select); ok && s.Blocking && firstSel == nil {
					firstSel = ins
				}
			})
			if firstSel != nil {
				g := closedGuardDominates(p, fn, firstSel, "ErrStreamClosed")
				r.Check(fnName(fn)+" closed guard first", g, posOf(p, firstSel), fnName(fn), "the closed test returning ErrStreamClosed must dominate the hand-over select (closed wins over a ready channel)")
			}
		}
	}
}

func directWire(fn *ssa.Function) bool {
	found := false
	allInstrs(fn, func(ins ssa.Instruction) {
		n := callName(ins)
		if strings.HasPrefix(n, "/wire.ClientConn.Send") || strings.HasPrefix(n, "/wire.ClientConn.Subscribe") {
			found = true
		}
	})
	return found
}

func ruleC10O2(r *Run) {
	r.Begin("O2", "no reconnect after Closed: in reconnect the dial (retry.Do / connectWire) is dominated by the success edge of CompareAndSwapNot(Closed, Reconnecting) whose failure edge returns ErrConnectionClosed; the retry closure ends when the status is Closed; in the run loop a failed reconnect leads only to return", 3)
	p := r.P
	rec := r.method("/iscp", "Conn", "reconnect")
	if rec == nil {
		return
	}
	name := fnName(rec)
	closedC, _ := p.enumConst("/iscp", "connStatusClosed")
	var cas *ssa.Call
	allInstrs(rec, func(ins ssa.Instruction) {
		if c, ok := ins.(*ssa.Call); ok && isCallNamed(c, "/iscp.connStatus.CompareAndSwapNot") {
			if v, isC := constInt(c.Call.Args[1]); isC && v == closedC {
				cas = c
			}
		}
	})
	// the dial: retry.Do / connectWire / wire.Connect called in reconnect, or an unexported helper of the package that
	// gets there (the redial loop moved to a method of its own)
	dialNames := []string{"/internal/retry.Do", "/internal/retry.Retry.Do", "/iscp.ConnConfig.connectWire", "/wire.Connect"}
	var dial ssa.Instruction
	allInstrs(rec, func(ins ssa.Instruction) {
		if dial != nil {
			return
		}
		if isCallNamed(ins, dialNames...) {
			dial = ins
			return
		}
		if cc := instrCall(ins); cc != nil {
			if cal := cc.StaticCallee(); cal != nil && p.Analysed(cal) && fnPkgPath(cal) == fnPkgPath(rec) && cal.Object() != nil && !cal.Object().Exported() && cal.Signature.Recv() != nil && recvTypeName(cal) == "Conn" && p.reachesCall(cal, 2, dialNames...) {
				dial = ins
			}
		}
	})
	ok := false
	if cas != nil && dial != nil {
		if condTrueDominates(rec, cas, dial) {
			// failure edge returns the sentinel
			allInstrs(rec, func(ins ssa.Instruction) {
				if ifs, isIf := ins.(*ssa.If); isIf && sameValue(ifs.Cond, cas) {
					if nm, isS := returnsSentinel(ifs.Block().Succs[1]); isS && nm == "ErrConnectionClosed" {
						ok = true
					}
				}
			})
		}
	}
	r.Check(name+" refuses when closed", ok, p.pos(rec.Pos()), name, "the dial must be reachable only after CompareAndSwapNot(Closed, Reconnecting) succeeded; its failure returns ErrConnectionClosed")
	// retry closure returns Is(Closed) on failure
	// every retry body of reconnect (a function literal handed to retry.Do): a return reports 'end' either as the
	// constant true (success) or as Is(Closed); at least one of the bodies performs the wire connect
	okStop := true
	connects := false
	bodies := 0
	p.withHelpers(rec, 2, func(g *ssa.Function) {
		allInstrs(g, func(site ssa.Instruction) {
			if !isCallNamed(site, "/internal/retry.Do", "/internal/retry.Retry.Do") {
				return
			}
			for _, a := range instrCall(site).Args {
				cl := closureOf(a)
				if cl == nil {
					continue
				}
				bodies++
				if p.reachesCall(cl, 4, "/wire.Connect") {
					connects = true
				}
				allInstrs(cl, func(ins ssa.Instruction) {
					ret, isRet := ins.(*ssa.Return)
					if !isRet || len(ret.Results) != 1 {
						return
					}
					rv := retResults(ret)[0]
					if k, isK := rv.(*ssa.Const); isK && k.Value != nil && k.Value.String() == "true" {
						return
					}
					good := false
					if c, isCall := rv.(*ssa.Call); isCall {
						if cf := c.Call.StaticCallee(); cf != nil && recvTypeName(cf) == "connStatus" && cf.Name() == "Is" {
							if v, isC := constInt(c.Call.Args[1]); isC && v == closedC {
								good = true
							}
						}
					}
					if !good {
						okStop = false
					}
				})
			}
		})
	})
	okStop = okStop && connects && bodies > 0
	r.Check(name+" retry stops on Closed", okStop, p.pos(rec.Pos()), name, "after a failed dial the retry closure must report 'end' exactly when the status is Closed")
	// run loop
	for _, s := range p.staticCallSites(rec) {
		host := s.Parent()
		c, isCall := s.(*ssa.Call)
		if !isCall {
			continue
		}
		runFn := p.Method("/iscp", "Conn", "run")
		okExit := false
		for _, ev := range errResultsOf(c) {
			for _, ifs := range nilTestsOf(host, ev) {
				ne := nilEdge(ifs, ifs.Cond.(*ssa.BinOp).X)
				if ne == nil {
					ne = nilEdge(ifs, ifs.Cond.(*ssa.BinOp).Y)
				}
				for _, succ := range ifs.Block().Succs {
					if succ == ne {
						continue
					}
					// from the error edge no path reaches a call of run again
					w := reachesWithoutFromBlock(succ, func(ins ssa.Instruction) bool {
						cc, ok := ins.(*ssa.Call)
						return ok && cc.Call.StaticCallee() == runFn
					}, nil)
					if w == nil {
						okExit = true
					}
				}
			}
		}
		r.Check(fnName(host)+" stops after a failed reconnect", okExit, posOf(p, s), fnName(host), "when reconnect returns an error the run loop must return, not run again")
	}
}

func ruleC10O3(r *Run) {
	r.Begin("O3", "disconnect closes the wire: in Conn.close every path from SendDisconnect to a return passes wireConn.Close()", 1)
	p := r.P
	cl := r.method("/iscp", "Conn", "close")
	if cl == nil {
		return
	}
	name := fnName(cl)
	sd := findCalls(cl, false, "/wire.ClientConn.SendDisconnect")
	sdAt := ssa.Instruction(nil) // where the Disconnect happens as seen from close: the call itself, or the call of the helper
	if len(sd) == 0 {
		// the critical section may be a helper of its own (disconnectWithoutLock): the path rule is then about it
		allInstrs(cl, func(ins ssa.Instruction) {
			c, ok := ins.(*ssa.Call)
			if !ok || len(sd) > 0 {
				return
			}
			if h := c.Call.StaticCallee(); h != nil && p.Analysed(h) && h.Pkg == cl.Pkg && recvTypeName(h) == "Conn" && (h.Object() == nil || !h.Object().Exported()) {
				if x := findCalls(h, false, "/wire.ClientConn.SendDisconnect"); len(x) > 0 {
					sd, sdAt = x, ins
				}
			}
		})
	} else {
		sdAt = sd[0]
	}
	if len(sd) == 0 {
		r.Check(name+" sends Disconnect", false, p.pos(cl.Pos()), name, "close does not send a Disconnect message")
		return
	}
	w := reachesWithout(sd[0], isReturn, func(ins ssa.Instruction) bool { return isCallNamed(ins, "/wire.ClientConn.Close") })
	r.Check(name+" closes the wire after Disconnect", w == nil, posOf(p, w), name, "a return is reachable after SendDisconnect without wireConn.Close(): the transport and its goroutines stay alive", "entry: "+name, "disconnect: "+posOf(p, sd[0]), "offending exit: "+posOf(p, w))
	// and the status is set to Closed before anything else
	closedC, _ := p.enumConst("/iscp", "connStatusClosed")
	var swap ssa.Instruction
	allInstrs(cl, func(ins ssa.Instruction) {
		if c, ok := ins.(*ssa.Call); ok && isCallNamed(c, "/iscp.connStatus.Swap") {
			if v, isC := constInt(c.Call.Args[1]); isC && v == closedC {
				swap = ins
			}
		}
	})
	r.Check(name+" publishes Closed first", swap != nil && dominatesInstr(swap, sdAt), p.pos(cl.Pos()), name, "the status must be Closed before the Disconnect is sent")
}

func ruleC10O5(r *Run) {
	r.Begin("O5", "closing the connection closes its streams: OpenUpstream and OpenDownstream each start a goroutine that waits for connStatusClosed with the stream's context and runs the stream's cancel afterwards", 2)
	p := r.P
	closedC, _ := p.enumConst("/iscp", "connStatusClosed")
	for _, m := range []string{"OpenUpstream", "OpenDownstream"} {
		fn := r.method("/iscp", "Conn", m)
		if fn == nil {
			continue
		}
		ok := false
		// goroutines started by fn: function literals, or named methods started with go (then the stream's cancel is
		// one of the arguments)
		allInstrs(fn, func(gi ssa.Instruction) {
			g, isGo := gi.(*ssa.Go)
			if !isGo {
				return
			}
			cl := closureOf(g.Call.Value)
			if cl == nil {
				cl = g.Call.StaticCallee()
			}
			if cl == nil || cl.Blocks == nil {
				return
			}
			waits, cancels := false, false
			allInstrs(cl, func(ins ssa.Instruction) {
				if isCallNamed(ins, "/iscp.connStatus.WaitUntil") {
					if v, isC := constInt(instrCall(ins).Args[2]); isC && v == closedC {
						waits = true
					}
				}
				if cc := instrCall(ins); cc != nil && cc.StaticCallee() == nil && !cc.IsInvoke() {
					// a call of a func value: the stream's cancel (from context.WithCancel)
					l := p.Leaves(cc.Value, provOpts{})
					if hasLeaf(l, "call:context.WithCancel") {
						cancels = true
					}
					if prm, isP := canonVal(cc.Value).(*ssa.Parameter); isP && prm.Parent() == cl {
						args := callArgs(&g.Call)
						for i, q := range cl.Params {
							if q == prm && i < len(args) && hasLeaf(p.Leaves(args[i], provOpts{}), "call:context.WithCancel") {
								cancels = true
							}
						}
					}
				}
			})
			if waits && cancels {
				ok = true
			}
		})
		r.Check(fnName(fn)+" cancels the stream on connection close", ok, p.pos(fn.Pos()), fnName(fn), "a goroutine must wait for connStatusClosed and then cancel the stream's context")
	}
}

// allowedPanics: functions that may contain an explicit panic, with the reason.
var allowedPanics = map[string]string{
	"(*iscp.Downstream).wireToDownstreamChunk":           "unreachable default of an exhaustive type switch over the two id-or-alias variants (the decoder rejects other values)",
	"message.MustParseDataFilter":                        "Must-style constructor, documented to panic on a bad pattern",
	"transport/nic.OpenManager":                          "construction-time misuse (empty NIC list)",
	"transport/webtransport.New":                         "the datagram goroutine re-panics with an explanatory message when datagrams are not enabled in the configuration",
	"transport/quic.New":                                 "the datagram goroutine re-panics with an explanatory message when datagrams are not enabled in the configuration",
	"(*transport/webtransport.Config).connectionOrPanic": "construction-time misuse (nil connection)",
	"(*transport/quic.Config).connectionOrPanic":         "construction-time misuse (nil connection)",
	"(*transport/websocket.Config).webSocketConnOrPanic": "construction-time misuse (nil connection)",
	"(transport/webtransport.Config).connectionOrPanic":  "construction-time misuse (nil connection)",
	"(transport/quic.Config).connectionOrPanic":          "construction-time misuse (nil connection)",
	"(transport/websocket.Config).webSocketConnOrPanic":  "construction-time misuse (nil connection)",
	"(*transport/websocket/gorilla.Conn).Reader":         "unreachable after a switch over the two websocket message types",
	"(*transport/websocket/gorilla.Conn).Writer":         "unreachable after a switch over the two websocket message types",
	"(*transport/websocket/nhooyr.Conn).Reader":          "unreachable after a switch over the two websocket message types",
	"(*transport/websocket/nhooyr.Conn).Writer":          "unreachable after a switch over the two websocket message types",
	"(*transport/websocket/coder.Conn).Reader":           "unreachable after a switch over the two websocket message types",
	"(*transport/websocket/coder.Conn).Writer":           "unreachable after a switch over the two websocket message types",
	"transport/websocket.RegisterDialFunc":               "init-time double registration",
	"(*transport/reconnect.Transport).CloseWithStatus":   "Dial refuses transports that are not Closers, so the fallback is unreachable",
	"(*wire.ClientConn).openUpstream":                    "unsupported QoS: the three QoS values are enumerated, callers pass validated values",
	"(*wire.ClientConn).SubscribeDownstreamChunk":        "unsupported QoS: the three QoS values are enumerated",
}

func ruleC10P1(r *Run) {
	r.Begin("P1", "no library panic outside the allowed table: every explicit panic in the analysed packages is in a function listed with a reason (construction-time misuse, unreachable after an exhaustive switch); a panic on a lost status race (Close arriving during a reconnect) is not allowed", 15)
	p := r.P
	seen := map[string]bool{}
	for _, fn := range p.Funcs {
		allInstrs(fn, func(ins ssa.Instruction) {
			pn, ok := ins.(*ssa.Panic)
			if !ok || !pn.Pos().IsValid() {
				return // go/ssa also emits position-less panics for selects that match no case
			}
			// skip compiler-generated panics (e.g. nil map) — go/ssa only emits Panic for explicit calls
			name := fnName(fn)
			if seen[name] {
				return
			}
			seen[name] = true
			reason, allowed := allowedPanics[name]
			if !allowed {
				// re-panics inside deferred recover handlers of allowed parents
				reason, allowed = allowedPanics[fnName(topFunc(fn))]
			}
			if !allowed {
				// the panic moved, with the switch it ends, into a helper: a function that did not exist on the confirmed
				// tree, is unexported and is called only from allowed functions
				top := topFunc(fn)
				var base map[string]wiredEntry
				_ = json.Unmarshal(baselineReachableJSON, &base)
				if _, existed := base[fnName(top)]; !existed && len(base) > 0 && (top.Object() == nil || !top.Object().Exported()) {
					sites := p.staticCallSites(top)
					moved := len(sites) > 0
					for _, site := range sites {
						caller := topFunc(site.Parent())
						why, ok2 := allowedPanics[fnName(caller)]
						if !ok2 {
							moved = false
							continue
						}
						reason = "moved out of " + fnName(caller) + ": " + why
					}
					allowed = moved
				}
			}
			r.Check(name+" panic", allowed, posOf(p, pn), name, "explicit panic in library code; allowed: "+reason)
		})
	}
	_ = types.Typ
}

// ruleC10O6: sends to channels drained by API calls are cancellable.
func ruleC10O6(r *Run) {
	r.Begin("O6", "no dispatcher left behind: a channel field of wire.ClientConn that is received from in an exported method (its consumer is the caller, who may stop) is sent to only inside a select that also watches a Done() channel or has a default case; a plain send there blocks the read loop forever once the consumer stops, and the connection's goroutines outlive Close", 2)
	p := r.P
	// channel fields received from in exported methods
	apiDrained := map[string]bool{}
	for _, fn := range p.Funcs {
		if fnPkgPath(fn) != modPath+"/wire" || recvTypeName(fn) != "ClientConn" || fn.Parent() != nil {
			continue
		}
		if obj, _ := fn.Object().(*types.Func); obj == nil || !obj.Exported() {
			continue
		}
		allInstrs(fn, func(ins ssa.Instruction) {
			if sel, ok := ins.(*ssa.Select); ok {
				for _, st := range sel.States {
					if st.Dir == types.RecvOnly {
						for _, l := range p.Leaves(st.Chan, provOpts{}) {
							if strings.HasPrefix(l, "field:/wire.ClientConn.msg") {
								apiDrained[strings.TrimPrefix(l, "field:")] = true
							}
						}
					}
				}
			}
		})
	}
	r.Stat("api_drained_channels", len(apiDrained))
	n := 0
	for _, fn := range p.Funcs {
		if fnPkgPath(fn) != modPath+"/wire" {
			continue
		}
		name := fnName(fn)
		allInstrs(fn, func(ins ssa.Instruction) {
			switch x := ins.(type) {
			case *ssa.Send:
				for _, l := range p.Leaves(x.Chan, provOpts{}) {
					if apiDrained[strings.TrimPrefix(l, "field:")] {
						n++
						r.Check(fmt.Sprintf("%s send %s", name, l[strings.LastIndexByte(l, '.')+1:]), false, p.pos(x.Pos()), name, "plain blocking send on "+l+", whose consumer is an API call")
					}
				}
			case *ssa.Select:
				for _, st := range x.States {
					if st.Dir != types.SendOnly {
						continue
					}
					for _, l := range p.Leaves(st.Chan, provOpts{}) {
						if !apiDrained[strings.TrimPrefix(l, "field:")] {
							continue
						}
						n++
						okSel := !x.Blocking
						for _, st2 := range x.States {
							if st2.Dir == types.RecvOnly {
								if _, isDone := doneLike(st2.Chan); isDone {
									okSel = true
								}
							}
						}
						r.Check(fmt.Sprintf("%s send %s", name, l[strings.LastIndexByte(l, '.')+1:]), okSel, p.pos(x.Pos()), name, "send on "+l+" inside a select with a Done() or default case")
					}
				}
			case *ssa.Call:
				// the channel handed to a helper that performs the send (offer(ch, m), deliver(ctx, ch, m)): judged by
				// the helper's sends on that parameter
				cal := x.Call.StaticCallee()
				if cal == nil || !p.Analysed(cal) || cal.Blocks == nil {
					return
				}
				for i, a := range x.Call.Args {
					if _, isCh := a.Type().Underlying().(*types.Chan); !isCh {
						continue
					}
					for _, l := range p.Leaves(a, provOpts{}) {
						if !apiDrained[strings.TrimPrefix(l, "field:")] {
							continue
						}
						for _, ps := range paramSends(cal, i, 0) {
							n++
							r.Check(fmt.Sprintf("%s send %s", name, l[strings.LastIndexByte(l, '.')+1:]), !ps.blocking || ps.hasDone, p.pos(x.Pos()), name, "send on "+l+" through "+fnName(cal)+": a select with a Done() or default case")
						}
					}
				}
			}
		})
	}
	if n == 0 {
		r.Undecided("sends to API-drained channels", "none found")
	}
}

// ruleC10O11: Closed is the terminal status of a connection. Every call on the status holder made from package iscp
// is evaluated from Closed (helper bodies are executed, unknown branches enumerated): none may leave another status
// behind. A request path that overwrites Closed with Reconnecting makes every later call wait for a reconnect that
// nobody performs.
func ruleC10O11(r *Run) {
	r.Begin("O11", "Closed is absorbing: every call of a connStatus method from package iscp, evaluated from the status Closed, leaves the status Closed", 5)
	p := r.P
	fld := r.field("/iscp", "connStatus", "current")
	holder := r.named("/iscp", "connStatus")
	closed, ok := p.enumConst("/iscp", "connStatusClosed")
	if fld == nil || holder == nil || !ok {
		return
	}
	for _, fn := range p.Funcs {
		if fnPkgPath(fn) != modPath+"/iscp" || fn.Blocks == nil {
			continue
		}
		if fn.Signature.Recv() != nil && namedOf(fn.Signature.Recv().Type()) == holder {
			continue // the helpers themselves
		}
		if fn.Synthetic != "" {
			continue // bound-method and interface wrappers: judged where the method value is used
		}
		k := 0
		allInstrs(fn, func(ins ssa.Instruction) {
			c, isCall := ins.(*ssa.Call)
			if !isCall {
				return
			}
			cal := c.Call.StaticCallee()
			if cal == nil || cal.Signature.Recv() == nil || namedOf(cal.Signature.Recv().Type()) != holder {
				return
			}
			outs, err := stateOutcomes(c, fld, closed)
			name := fnName(fn)
			k++
			key := fmt.Sprintf("%s status call#%d %s", name, k, cal.Name())
			if err != "" {
				// helpers that wait (cond.Wait loops) or take non-constant statuses cannot be executed; they do not store
				if !p.reachesStoreTo(cal, fld, 2) {
					r.Check(key, true, posOf(p, c), name, "the helper never writes the status")
					return
				}
				r.Undecided(key, err)
				return
			}
			stays := true
			for _, o := range outs {
				if o.after != closed {
					stays = false
				}
			}
			detail := callName(c) + " evaluated from Closed leaves the status Closed"
			if !stays {
				detail = callName(c) + " evaluated from Closed leaves another status behind: a closed connection comes back to life as far as every waiting caller can tell"
			}
			r.Check(key, stays, posOf(p, c), name, detail)
		})
	}
}

// reachesStoreTo: fn or a static callee (to depth) stores into field f.
func (p *Prog) reachesStoreTo(fn *ssa.Function, f *types.Var, depth int) bool {
	if fn == nil || fn.Blocks == nil {
		return false
	}
	found := false
	withAnon(fn, func(g *ssa.Function) {
		allInstrs(g, func(ins ssa.Instruction) {
			if st, ok := ins.(*ssa.Store); ok {
				if fa, isFA := st.Addr.(*ssa.FieldAddr); isFA && fieldOf(fa.X.Type(), fa.Field) == f {
					found = true
				}
			}
			if c, ok := ins.(*ssa.Call); ok && depth > 0 && !found {
				if cf := c.Call.StaticCallee(); cf != nil && p.Analysed(cf) && p.reachesStoreTo(cf, f, depth-1) {
					found = true
				}
				// a method value of the field's owner handed on as an argument may be the one that stores
				for _, a := range c.Call.Args {
					if mc, isMC := a.(*ssa.MakeClosure); isMC {
						if bf, isF := mc.Fn.(*ssa.Function); isF && strings.HasSuffix(bf.Name(), "$bound") {
							for _, m := range p.Funcs {
								if m.Object() != nil && m.Object() == bf.Object() && p.reachesStoreTo(m, f, depth-1) {
									found = true
								}
							}
						}
					}
				}
			}
		})
	})
	return found
}

// ruleC10O14: Conn.Close closes the streams it knows about. A stream that is opened without being entered into the
// connection's set (or a closed one that is never taken out) is not closed with the connection, or is closed twice.
func ruleC10O14(r *Run) {
	r.Begin("O14", "the connection knows its streams: the sets Conn.upstreams and Conn.downstreams each have an insert site and a delete site outside constructors, and are ranged over by the connection's close path", 2)
	p := r.P
	for _, fname := range []string{"upstreams", "downstreams"} {
		fk := "/iscp.Conn." + fname
		if r.field("/iscp", "Conn", fname) == nil {
			continue
		}
		ins, del, rng := 0, 0, 0
		for _, fn := range p.Funcs {
			if fnPkgPath(fn) != modPath+"/iscp" {
				continue
			}
			for _, a := range collectAccesses(fn) {
				if fieldKey(a.Owner, a.Field) != fk {
					continue
				}
				switch a.What {
				case "mapupdate":
					ins++
				case "delete":
					del++
				}
			}
			allInstrs(fn, func(x ssa.Instruction) {
				if rg, ok := x.(*ssa.Range); ok && hasLeaf(p.Leaves(rg.X, provOpts{}), "field:"+fk) {
					rng++
				}
			})
		}
		r.Check("set "+fk, ins > 0 && del > 0 && rng > 0, "", "iscp", fmt.Sprintf("%d insert site(s), %d delete site(s), %d range(s) over %s", ins, del, rng, fk))
	}
}

// ruleC10O15: Closed is terminal, so a goroutine that waits for any other status must also wake up for Closed. A wait
// through WaitUntil(ctx, Connected) with a context nobody cancels on Close parks the stream supervisor for ever when
// Close arrives while the connection is being redialled.
func ruleC10O15(r *Run) {
	r.Begin("O15", "no wait outlives Close: every call of (*connStatus).WaitUntil for a status other than Closed passes a context derived from connStatus.WithCloseStatus; otherwise the wait is made with WaitUntilOrClosed (which returns ErrConnectionClosed once the status is Closed)", 2)
	p := r.P
	closedC, ok := p.enumConst("/iscp", "connStatusClosed")
	if !ok {
		r.Undecided("anchor connStatusClosed", "constant not found")
		return
	}
	n := 0
	per := map[string]int{}
	for _, c := range p.moduleCalls("/iscp.connStatus.WaitUntil") {
		cc := instrCall(c)
		if cc == nil || len(cc.Args) < 3 {
			continue
		}
		fn := c.Parent()
		name := fnName(fn)
		per[name]++
		n++
		st, isK := constInt(cc.Args[2])
		key := fmt.Sprintf("%s wait#%d gives up on Closed", name, per[name])
		if isK && st == closedC {
			r.Check(key, true, posOf(p, c), name, "waits for Closed itself")
			continue
		}
		l := p.Leaves(cc.Args[1], provOpts{ParamDepth: 1})
		okCtx := hasLeaf(l, "call:/iscp.connStatus.WithCloseStatus")
		r.Check(key, okCtx, posOf(p, c), name, "WaitUntil for a status other than Closed with a context that Close does not cancel (context from ["+joinLeaves(l)+"]): if Close arrives while the connection is being redialled the status never becomes the awaited one and the goroutine, its event dispatcher and its deferred unregistration stay behind for ever")
	}
	if n == 0 {
		r.Undecided("WaitUntil call sites", "none found")
	}
}

// ruleC10O16: a wait that promises to give up on Closed has to look at Closed after every wake-up. Close wakes the
// waiters exactly once; a test made only before the wait lets a request that was already parked (a redial was in
// progress) go back to sleep for ever.
func ruleC10O16(r *Run) {
	r.Begin("O16", "Closed is re-tested inside the wait loop: every method of the connection status holder that can return ErrConnectionClosed and reaches cond.Wait has its Closed test inside the loop of that Wait — directly, or as a function value that the waiting function invokes inside the loop", 1)
	p := r.P
	holder := r.named("/iscp", "connStatus")
	fld := r.field("/iscp", "connStatus", "current")
	closedC, okC := p.enumConst("/iscp", "connStatusClosed")
	if holder == nil || fld == nil || !okC {
		r.Undecided("anchors", "connStatus, its status field or connStatusClosed not found")
		return
	}
	onHolder := func(fn *ssa.Function) bool {
		t := topFunc(fn)
		return t.Signature.Recv() != nil && namedOf(t.Signature.Recv().Type()) == holder
	}
	// a test "status == Closed" whose equal edge returns the sentinel, inside the given blocks (nil = anywhere in fn)
	closedTest := func(fn *ssa.Function, within map[*ssa.BasicBlock]bool) bool {
		found := false
		allInstrs(fn, func(ins ssa.Instruction) {
			ifs, ok := ins.(*ssa.If)
			if !ok || (within != nil && !within[ifs.Block()]) {
				return
			}
			bo, isBo := ifs.Cond.(*ssa.BinOp)
			if !isBo || (bo.Op != token.EQL && bo.Op != token.NEQ) {
				return
			}
			var other ssa.Value
			if v, isK := constInt(bo.Y); isK && v == closedC {
				other = bo.X
			} else if v, isK := constInt(bo.X); isK && v == closedC {
				other = bo.Y
			}
			if other == nil || !typeIs(other.Type(), modPath+"/iscp", "connStatusValue") {
				return
			}
			eq := ifs.Block().Succs[0]
			if bo.Op == token.NEQ {
				eq = ifs.Block().Succs[1]
			}
			if nm, isS := returnsSentinel(eq); isS && nm == "ErrConnectionClosed" {
				found = true
			}
		})
		return found
	}
	type waiter struct {
		direct    bool
		viaParams map[int]bool
	}
	waiters := map[*ssa.Function]*waiter{}
	for _, fn := range p.Funcs {
		if fnPkgPath(fn) != modPath+"/iscp" || fn.Blocks == nil || !onHolder(fn) {
			continue
		}
		allInstrs(fn, func(ins ssa.Instruction) {
			c, ok := ins.(*ssa.Call)
			if !ok {
				return
			}
			if op, _ := classifyLockCall(&c.Call); op != opWait || !inLoop(c) {
				return
			}
			loop := loopBlocks(c.Block())
			w := &waiter{viaParams: map[int]bool{}}
			w.direct = closedTest(fn, loop)
			for b := range loop {
				for _, x := range b.Instrs {
					if cc, isC := x.(*ssa.Call); isC && cc.Call.StaticCallee() == nil && !cc.Call.IsInvoke() {
						if prm, isP := canonVal(cc.Call.Value).(*ssa.Parameter); isP {
							for j, q := range fn.Params {
								if q == prm {
									w.viaParams[j] = true
								}
							}
						}
					}
				}
			}
			waiters[fn] = w
		})
	}
	n := 0
	for _, fn := range p.Funcs {
		if fnPkgPath(fn) != modPath+"/iscp" || fn.Blocks == nil || fn.Parent() != nil || !onHolder(fn) {
			continue
		}
		// does fn promise ErrConnectionClosed? (itself or in a function literal it hands on)
		promises := closedTest(fn, nil)
		for _, cl := range fn.AnonFuncs {
			if closedTest(cl, nil) {
				promises = true
			}
		}
		// a named function handed on as the hook (errIfClosed)
		funcOf := func(v ssa.Value) *ssa.Function {
			if f := closureOf(v); f != nil {
				return f
			}
			switch x := v.(type) {
			case *ssa.Function:
				return x
			case *ssa.MakeClosure:
				f, _ := x.Fn.(*ssa.Function)
				return f
			}
			return nil
		}
		allInstrs(fn, func(ins ssa.Instruction) {
			if c, ok := ins.(*ssa.Call); ok {
				for _, a := range c.Call.Args {
					if f := funcOf(a); f != nil && f.Blocks != nil && closedTest(f, nil) {
						promises = true
					}
				}
			}
		})
		allInstrs(fn, func(ins ssa.Instruction) {
			if c, ok := ins.(*ssa.Call); ok {
				if cal := c.Call.StaticCallee(); cal != nil && cal.Signature.Recv() != nil && namedOf(cal.Signature.Recv().Type()) == holder && cal.Name() == "Is" && len(c.Call.Args) > 1 {
					if v, isK := constInt(c.Call.Args[1]); isK && v == closedC && c.Referrers() != nil {
						for _, ref := range *c.Referrers() {
							if ifs, isIf := ref.(*ssa.If); isIf {
								if nm, isS := returnsSentinel(ifs.Block().Succs[0]); isS && nm == "ErrConnectionClosed" {
									promises = true
								}
							}
						}
					}
				}
			}
		})
		if !promises {
			continue
		}
		name := fnName(fn)
		ok, reaches := false, false
		if w := waiters[fn]; w != nil {
			reaches = true
			ok = w.direct
		}
		allInstrs(fn, func(ins ssa.Instruction) {
			c, isC := ins.(*ssa.Call)
			if !isC {
				return
			}
			w := waiters[c.Call.StaticCallee()]
			if w == nil {
				return
			}
			reaches = true
			if w.direct {
				ok = true
			}
			for j := range w.viaParams {
				if j < len(c.Call.Args) {
					if cl := funcOf(c.Call.Args[j]); cl != nil && cl.Blocks != nil && closedTest(cl, nil) {
						ok = true
					}
				}
			}
		})
		if !reaches {
			continue
		}
		n++
		r.Check(name+" re-tests Closed after every wake-up", ok, p.pos(fn.Pos()), name, "the function returns ErrConnectionClosed for a closed connection and then waits on the status condition, but the Closed test is not inside the wait loop: a caller already parked when Close arrives is woken once, finds the awaited status still missing and sleeps for ever")
	}
	if n == 0 {
		r.Undecided("waits that give up on Closed", "no method of connStatus both returns ErrConnectionClosed and waits")
	}
}

// ruleC10O17: a method that refuses a closed stream or connection (it has a branch returning ErrStreamClosed or
// ErrConnectionClosed decided by a test at its top) refuses it for every input: no return of a nil error is reachable
// without passing the first such test. A fast path placed in front of the test ("nothing to do for an empty write")
// makes the call succeed silently after Close.
func ruleC10O17(r *Run) {
	r.Begin("O17", "closed is refused for every input: in each exported method of Upstream, Downstream and Conn whose entry leads to a test that returns ErrStreamClosed/ErrConnectionClosed, every return of a nil error is dominated by the first such test", 3)
	p := r.P
	for _, fn := range p.Funcs {
		if fnPkgPath(fn) != modPath+"/iscp" || fn.Parent() != nil || fn.Blocks == nil || fn.Object() == nil || !fn.Object().Exported() {
			continue
		}
		switch recvTypeName(fn) {
		case "Upstream", "Downstream", "Conn":
		default:
			continue
		}
		res := fn.Signature.Results()
		if res.Len() == 0 || res.At(res.Len()-1).Type().String() != "error" {
			continue
		}
		// the first closed-test: an If one of whose edges returns the sentinel, that dominates every other such If
		var tests []*ssa.If
		allInstrs(fn, func(ins ssa.Instruction) {
			ifs, ok := ins.(*ssa.If)
			if !ok {
				return
			}
			for _, s := range ifs.Block().Succs {
				if nm, isS := returnsSentinel(s); isS && (nm == "ErrStreamClosed" || nm == "ErrConnectionClosed") {
					tests = append(tests, ifs)
				}
			}
		})
		var first *ssa.If
		for _, t := range tests {
			dom := true
			for _, u := range tests {
				if u != t && !t.Block().Dominates(u.Block()) {
					dom = false
				}
			}
			if dom {
				first = t
			}
		}
		if first == nil && len(tests) > 0 {
			first = tests[0] // no single first test: any of them serves to ask whether one is made at entry
			for _, t := range tests {
				if t.Block().Index < first.Block().Index {
					first = t
				}
			}
		}
		if first == nil {
			continue
		}
		// (a Closed test behind a select or a wait explains why the wait ended; it is not an entry test)
		blocking := func(x ssa.Instruction) bool {
			switch y := x.(type) {
			case *ssa.Select, *ssa.Send:
				return true
			case *ssa.UnOp:
				return y.Op == token.ARROW
			}
			return isCallNamed(x, "/iscp.connStatus.WaitUntil", "/iscp.connStatus.WaitUntilOrClosed", "/iscp.streamState.WaitUntil", "sync.Cond.Wait")
		}
		if reachesFromEntryWithout(fn, func(x ssa.Instruction) bool { return x == ssa.Instruction(first) }, blocking) == nil {
			// a stream method that can report ErrStreamClosed only from inside its wait: called after Close it selects
			// over "closed" and whatever else is ready, and returns a buffered item with a nil error every other time
			if rn := recvTypeName(fn); rn == "Upstream" || rn == "Downstream" {
				sel := false
				allInstrs(fn, func(x ssa.Instruction) {
					if y, isSel := x.(*ssa.Select); isSel && y.Blocking {
						sel = true
					}
				})
				if sel {
					r.Check(fnName(fn)+" tests closed at entry", false, posOf(p, first), fnName(fn), "the method reports ErrStreamClosed only from a branch of its select: after Close has returned, a call finds the closed stream AND a buffered item ready and succeeds about half of the time instead of failing")
				}
			}
			continue
		}
		if rn := recvTypeName(fn); rn == "Upstream" || rn == "Downstream" {
			r.Check(fnName(fn)+" tests closed at entry", true, posOf(p, first), fnName(fn), "closed is tested before anything that can wait")
		}
		// only tests made before anything else happens count as "the method refuses when closed": the test block is
		// reached from the entry without a call that blocks or sends
		name := fnName(fn)
		k := 0
		for _, ret := range returnsOf(fn) {
			if ret.Block() == fn.Recover {
				continue
			}
			rs := retResults(ret)
			if len(rs) == 0 || !isNilConst(rs[len(rs)-1]) {
				continue
			}
			k++
			r.Check(fmt.Sprintf("%s success#%d after the closed test", name, k), first.Block().Dominates(ret.Block()), posOf(p, ret), name, "this return reports success without the closed test at "+posOf(p, first)+" having been made: after Close the call succeeds silently for the inputs that take this path")
		}
	}
}

// ruleC10O18: Close must not return while a redial is still in flight — the dial would open a transport and exchange
// the connect request after Close has returned. The redial (retry.Do / connectWire in reconnect) runs with some mutex
// held, and the connection's close path acquires that very mutex.
func ruleC10O18(r *Run, le *LockEngine) {
	r.Begin("O18", "Close waits out a redial in flight: a mutex held by (*Conn).reconnect across the dial is acquired by (*Conn).close (or a function it calls)", 1)
	p := r.P
	rec := r.method("/iscp", "Conn", "reconnect")
	cl := r.method("/iscp", "Conn", "close")
	if rec == nil || cl == nil {
		return
	}
	dialNames := []string{"/internal/retry.Do", "/internal/retry.Retry.Do", "/iscp.ConnConfig.connectWire", "/wire.Connect"}
	held := map[string]bool{}
	found := false
	for _, d := range p.callsReaching(rec, 2, dialNames...) {
		found = true
		for k := range le.HeldAt(d) {
			held[k] = true
		}
	}
	if !found {
		r.Undecided(fnName(rec)+" dial", "no dial call found in reconnect")
		return
	}
	taken := map[string]bool{}
	p.withHelpers(cl, 2, func(g *ssa.Function) {
		allInstrs(g, func(ins ssa.Instruction) {
			cc := instrCall(ins)
			if cc == nil {
				return
			}
			if op, recv := classifyLockCall(cc); op == opLock || op == opRLock {
				if pa := pathOf(recv); pa != nil {
					taken[pa.String()] = true
				}
			}
		})
	})
	common := ""
	for k := range held {
		if taken[k] {
			common = k
		}
	}
	r.Check(fnName(cl)+" waits for the redial", common != "", p.pos(cl.Pos()), fnName(cl), fmt.Sprintf("locks held across the dial in reconnect: %v; locks the close path acquires: %v — with none in common Close returns while the dial is still in flight", keysOf(held), keysOf(taken)))
}

// ruleSendersOutliveReceivers: "no goroutine started by the library survives". A goroutine that hands values to another
// one with a plain send on a channel field can only end if the send does: where the receiving side takes from that
// field in a select that also watches a Done() channel — it may stop receiving while the channel is still open — a plain
// send on the field blocks for ever once the buffer is full, and the sender (with everything it would have cleaned up
// in its defers) is leaked. Such a sender must be able to give up as well: its send is a case of a select that has a
// Done() case too.
func ruleSendersOutliveReceivers(r *Run, id string, pkgs ...string) {
	r.Begin(id, "a sender can give up when its receiver can: for every channel field that some function receives from in a select with a Done() case, no function sends on that field with a plain send (outside a select with a Done() case)", 0)
	p := r.P
	inPkgs := func(fn *ssa.Function) bool {
		for _, pk := range pkgs {
			if fnPkgPath(fn) == modPath+pk {
				return true
			}
		}
		return false
	}
	fieldOfChan := func(v ssa.Value) string {
		c := canonVal(v)
		if ct, isCT := c.(*ssa.ChangeType); isCT {
			c = canonVal(ct.X)
		}
		if u, isU := c.(*ssa.UnOp); isU && u.Op == token.MUL {
			return fieldKeyOfAddr(u.X)
		}
		return ""
	}
	quitting := map[string]string{} // field -> where a receiver may leave
	for _, fn := range p.Funcs {
		if !inPkgs(fn) || fn.Blocks == nil {
			continue
		}
		allInstrs(fn, func(ins ssa.Instruction) {
			sel, ok := ins.(*ssa.Select)
			if !ok {
				return
			}
			hasDone := false
			for _, st := range sel.States {
				if st.Dir == types.RecvOnly && doneCtx(st.Chan) != nil {
					hasDone = true
				}
			}
			if !hasDone {
				return
			}
			for _, st := range sel.States {
				if st.Dir != types.RecvOnly || doneCtx(st.Chan) != nil {
					continue
				}
				if fk := fieldOfChan(st.Chan); fk != "" {
					quitting[fk] = fnName(fn) + " (" + posOf(p, sel) + ")"
				}
			}
		})
	}
	n := 0
	for _, fn := range p.Funcs {
		if !inPkgs(fn) || fn.Blocks == nil {
			continue
		}
		k := 0
		allInstrs(fn, func(ins ssa.Instruction) {
			snd, ok := ins.(*ssa.Send)
			if !ok {
				return
			}
			fk := fieldOfChan(snd.Chan)
			where, can := quitting[fk]
			if !can {
				return
			}
			n++
			k++
			r.Check(fmt.Sprintf("%s send#%d on %s can give up", fnName(fn), k, shortKey(fk)), false, posOf(p, snd), fnName(fn), "plain send on a channel whose receiver "+where+" may stop receiving when its context ends: once the buffer is full this goroutine blocks for ever and is leaked with its deferred clean-up")
		})
	}
	r.Stat("fields_with_a_quitting_receiver", len(quitting))
	if n == 0 {
		r.Check("plain sends to quitting receivers", true, "", "", fmt.Sprintf("%d channel fields have a receiver that may leave on Done(); none is sent to with a plain send", len(quitting)))
	}
}
