package main

import (
	"flag"
	"fmt"
)

func runSelfTests(id, dir string) []SelfTestResult { return nil }

func cmdDiscover(args []string) int {
	if len(args) < 1 {
		usage()
	}
	fs := flag.NewFlagSet("discover", flag.ExitOnError)
	repo := fs.String("repo", "", "repository directory")
	fs.Parse(args[1:])
	p, err := loadProg(repoDir(*repo), defaultConfig)
	if err != nil {
		fmt.Println("BROKEN:", err)
		return 2
	}
	theClosures = buildClosureInfo(p)
	switch args[0] {
	case "guard":
		discoverGuards(p)
	}
	return 0
}
