package main

func runSelfTests(id, dir string) []SelfTestResult { return nil }
func cmdDiscover(args []string) int               { return 0 }
