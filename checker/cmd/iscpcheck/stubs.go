package main

import (
	"flag"
	"fmt"
	"sort"
	"strings"

	"golang.org/x/tools/go/ssa"
)

func cmdDiscover(args []string) int {
	if len(args) < 1 {
		usage()
	}
	fs := flag.NewFlagSet("discover", flag.ExitOnError)
	repo := fs.String("repo", "", "repository directory")
	fs.Parse(args[1:])
	p, err := loadProg(repoDir(*repo), defaultConfig)
	if err != nil {
		fmt.Println("BROKEN:", err)
		return 2
	}
	theClosures = buildClosureInfo(p)
	switch args[0] {
	case "reachable":
		writeBaselineReachable(p)
	case "names":
		writeBaselineNames(p)
	case "guard":
		discoverGuards(p)
	case "dbglit":
		conv := p.Method("/iscp", "DataPointGroups", "toUpstreamDataPointGroups")
		n := p.Named("/message", "DataPointGroup")
		fmt.Println(conv, n)
		allInstrs(conv, func(ins ssa.Instruction) {
			if a, ok := ins.(*ssa.Alloc); ok {
				fmt.Println("alloc", a.Name(), a.Type(), a.Comment, namedOf(deref(a.Type())))
			}
		})
		for _, lit := range literalsOf(conv, n) {
			fmt.Println(lit.Alloc.Name(), lit.Fields)
		}
	case "literals":
		// print every struct literal of a message.* type in iscp/wire with the provenance of each field
		for _, fn := range p.Funcs {
			allInstrs(fn, func(ins ssa.Instruction) {
				a, ok := ins.(*ssa.Alloc)
				if !ok {
					return
				}
				n := namedOf(deref(a.Type()))
				if n == nil || n.Obj().Pkg() == nil {
					return
				}
				pk := n.Obj().Pkg().Path()
				fp := fnPkgPath(fn)
				if !(pk == modPath+"/message" || pk == modPath+"/iscp" || pk == modPath+"/wire" || pk == modPath+"/transport") || !(fp == modPath+"/iscp" || fp == modPath+"/wire" || strings.HasPrefix(fp, modPath+"/transport")) {
					return
				}
				for _, lit := range literalsOf(fn, n) {
					if lit.Alloc != a || len(lit.Fields) == 0 {
						continue
					}
					fmt.Printf("%s %s %s{\n", p.pos(a.Pos()), fnName(fn), n.Obj().Name())
					var names []string
					for k := range lit.Fields {
						names = append(names, k)
					}
					sort.Strings(names)
					for _, k := range names {
						fmt.Printf("    %s <- %v\n", k, p.Leaves(lit.Fields[k], provOpts{ParamDepth: 1}))
					}
				}
			})
		}
	}
	return 0
}
