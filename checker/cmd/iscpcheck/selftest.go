package main

import (
	"bufio"
	"encoding/json"
	"fmt"
	"os"
	"os/exec"
	"path/filepath"
	"sort"
	"strings"
	"sync"
)

// A self-test case is a patch against /repo's current tree with an expectation:
//
//	# expect: fire <rule> [<substring of the obligation key>]
//	# expect: silent
//
// Cases live in /verif/selftest/<property>/*.patch and /verif/seeded/*/patch.diff (with a
// meta.json naming the property and the expectation). Each case is applied to a scratch copy
// of the repository (outside /repo and /verif), checked in a child process, and removed.
type selfCase struct {
	Name   string
	Patch  string
	Expect string // fire | silent
	Rule   string
	KeySub string
}

func parseExpect(path string) (exp, rule, key string) {
	f, err := os.Open(path)
	if err != nil {
		return "", "", ""
	}
	defer f.Close()
	sc := bufio.NewScanner(f)
	for sc.Scan() {
		line := strings.TrimSpace(sc.Text())
		if !strings.HasPrefix(line, "#") {
			break
		}
		line = strings.TrimSpace(strings.TrimPrefix(line, "#"))
		if strings.HasPrefix(line, "expect:") {
			fs := strings.Fields(strings.TrimPrefix(line, "expect:"))
			if len(fs) >= 1 {
				exp = fs[0]
			}
			if len(fs) >= 2 {
				rule = fs[1]
			}
			if len(fs) >= 3 {
				key = strings.Join(fs[2:], " ")
			}
			return
		}
	}
	return
}

func collectSelfCases(id string) []selfCase {
	vd := verifDir()
	var out []selfCase
	files, _ := filepath.Glob(filepath.Join(vd, "selftest", id, "*.patch"))
	sort.Strings(files)
	for _, f := range files {
		exp, rule, key := parseExpect(f)
		if exp == "" {
			continue
		}
		out = append(out, selfCase{Name: filepath.Base(f), Patch: f, Expect: exp, Rule: rule, KeySub: key})
	}
	// seeded changes
	metas, _ := filepath.Glob(filepath.Join(vd, "seeded", "*", "meta.json"))
	sort.Strings(metas)
	for _, m := range metas {
		b, err := os.ReadFile(m)
		if err != nil {
			continue
		}
		var meta struct {
			Property string `json:"property"`
			Checks   []struct {
				Property string `json:"property"`
				Rule     string `json:"rule"`
				Key      string `json:"key"`
			} `json:"caught_by"`
		}
		if json.Unmarshal(b, &meta) != nil {
			continue
		}
		for _, c := range meta.Checks {
			if c.Property != id {
				continue
			}
			out = append(out, selfCase{Name: "seeded/" + filepath.Base(filepath.Dir(m)), Patch: filepath.Join(filepath.Dir(m), "patch.diff"), Expect: "fire", Rule: c.Rule, KeySub: c.Key})
		}
	}
	return out
}

func runSelfTests(id, dir string) []SelfTestResult {
	cases := collectSelfCases(id)
	if len(cases) == 0 {
		return nil
	}
	exe, err := os.Executable()
	if err != nil {
		return []SelfTestResult{{Name: "selftest", Kind: "setup", OK: false, Detail: err.Error()}}
	}
	results := make([]SelfTestResult, len(cases))
	sem := make(chan struct{}, 6)
	var wg sync.WaitGroup
	for i, c := range cases {
		wg.Add(1)
		go func(i int, c selfCase) {
			defer wg.Done()
			sem <- struct{}{}
			defer func() { <-sem }()
			results[i] = runSelfCase(exe, id, dir, c)
		}(i, c)
	}
	wg.Wait()
	return results
}

func runSelfCase(exe, id, dir string, c selfCase) SelfTestResult {
	kind := "must-fire"
	if c.Expect == "silent" {
		kind = "must-stay-silent"
	}
	res := SelfTestResult{Name: c.Name, Kind: kind}
	tmp, err := os.MkdirTemp("", "iscpcheck-selftest-")
	if err != nil {
		res.Detail = err.Error()
		return res
	}
	defer os.RemoveAll(tmp)
	repoCopy := filepath.Join(tmp, "repo")
	vdCopy := filepath.Join(tmp, "vd")
	os.MkdirAll(vdCopy, 0o755)
	// the listed known findings apply to the patched copies as well (a case must show something beyond them)
	if kf, err := os.ReadFile(filepath.Join(verifDir(), "known_findings.json")); err == nil {
		os.WriteFile(filepath.Join(vdCopy, "known_findings.json"), kf, 0o644)
	}
	if out, err := exec.Command("rsync", "-a", "--exclude", ".git", dir+"/", repoCopy+"/").CombinedOutput(); err != nil {
		res.Detail = "copy failed: " + string(out)
		return res
	}
	ap := exec.Command("patch", "-p1", "--no-backup-if-mismatch", "-s", "-i", c.Patch)
	ap.Dir = repoCopy
	if out, err := ap.CombinedOutput(); err != nil {
		// the tree differs from the one the case was written for: not a verdict on the checker
		res.OK = true
		res.Kind = kind + " (skipped)"
		res.Detail = "patch does not apply to the current tree: " + firstLine(string(out))
		return res
	}
	cmd := exec.Command(exe, "run", id, "--tier", "quick", "--repo", repoCopy)
	cmd.Env = append(os.Environ(), "VERIF_DIR="+vdCopy)
	out, _ := cmd.CombinedOutput()
	code := cmd.ProcessState.ExitCode()
	evb, err := os.ReadFile(filepath.Join(vdCopy, "evidence", id+".json"))
	if err != nil {
		res.Detail = fmt.Sprintf("variant run produced no evidence (exit %d): %s", code, lastLines(string(out), 3))
		return res
	}
	var ev struct {
		Violations int `json:"violations"`
		Coverage   struct {
			Samples []struct {
				Rule    string `json:"rule"`
				Key     string `json:"key"`
				Verdict string `json:"verdict"`
			} `json:"samples"`
			Undecided int `json:"undecided"`
		} `json:"coverage"`
	}
	json.Unmarshal(evb, &ev)
	switch c.Expect {
	case "silent":
		res.OK = code == 0 && ev.Violations == 0
		res.Detail = fmt.Sprintf("exit %d, %d violation(s) on a behaviour-preserving variant", code, ev.Violations)
		if !res.OK {
			res.Detail += ": " + lastLines(string(out), 4)
		}
	case "fire":
		hit := ""
		for _, s := range ev.Coverage.Samples {
			if s.Verdict != "VIOLATION" && s.Verdict != "UNDECIDED" {
				continue
			}
			if c.Rule != "" && c.Rule != "*" && s.Rule != c.Rule {
				continue
			}
			if c.KeySub != "" && !strings.Contains(s.Key, c.KeySub) {
				continue
			}
			hit = s.Rule + " " + s.Key
			break
		}
		res.OK = hit != "" && code != 0
		if res.OK {
			res.Detail = "reported: " + hit
		} else {
			res.Detail = fmt.Sprintf("expected a report of rule %s (key ~ %q); exit %d, %d violation(s): %s", c.Rule, c.KeySub, code, ev.Violations, lastLines(string(out), 3))
		}
	}
	return res
}

func firstLine(s string) string {
	if i := strings.IndexByte(s, '\n'); i >= 0 {
		return s[:i]
	}
	return s
}

func lastLines(s string, n int) string {
	ls := strings.Split(strings.TrimSpace(s), "\n")
	if len(ls) > n {
		ls = ls[len(ls)-n:]
	}
	return strings.Join(ls, " | ")
}
