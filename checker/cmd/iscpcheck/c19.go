package main

import (
	"fmt"
	"go/token"
	"go/types"
	"strings"

	"golang.org/x/tools/go/ssa"
)

func init() {
	register(&PropSpec{
		ID:          "C19",
		Explanation: "Structural necessary conditions for the multi-transport. U1: the selected transport id is always a member: every store to Transport.currentTransportID outside the constructor literal is dominated by the found edge of a membership lookup of the stored value in transportMap, the constructor's initial id is validated the same way with an error on the not-found edge; or else every use transportMap[currentTransportID] is a comma-ok lookup whose not-found edge returns. U2: Close and the counters range over the whole transportMap without leaving the loop early. U3: no receiver that was just compared equal to nil is dereferenced on that edge (access-path nilness over the package). U4: one reader goroutine per member feeds the single merge queue, and Read takes from that queue only.",
		NotDecided:  []string{"routing of each write under interleaved selections", "exactly-once reads as histories"},
		Rules: func(r *Run) {
			ruleC19U1(r)
			ruleC19U2(r)
			ruleC19U3(r)
			le := newLockEngine(r.P)
			ruleC19U4(r, le)
			ruleFreshPerSend(r, "U5", "/transport/", "/wire", "/iscp", "/internal/")
			ruleNoSwallowedErrors(r, "U6", 3, true, "/transport/multi")
			ruleCloseNotBehindIO(r, le, "U7")
			r.borrow("C09", func() { rulePublishedFrozen(r, "A5") })
			ruleLockPairingFor(r, le, "U8", "a scheduler event never leaves the selection mutex held: every function of package transport/multi that takes a lock releases it on every path (an ignored event must not make the next Write hang)", func(fn *ssa.Function) bool {
				return fnPkgPath(fn) == modPath+"/transport/multi" && (le.Info(fn).Events > 0 || len(le.Info(fn).Reports) > 0)
			}, 4)
		},
	})
}

const muPkg = "/transport/multi"

// memberGuard: ins executes only when `val` was found in Transport.transportMap (comma-ok true edge),
// or on the false edge of a not-found test that returns/continues.
func memberGuarded(p *Prog, fn *ssa.Function, ins ssa.Instruction, val ssa.Value) bool {
	ok := false
	target := canonVal(val)
	allInstrs(fn, func(x ssa.Instruction) {
		lk, isL := x.(*ssa.Lookup)
		if !isL || !lk.CommaOk || lk.Referrers() == nil {
			return
		}
		if !hasLeafPrefix(p.Leaves(lk.X, provOpts{}), "field:"+muPkg+".Transport.transportMap") && !hasLeafPrefix(p.Leaves(lk.X, provOpts{}), "field:"+muPkg+".TransportConfig.TransportMap") {
			return
		}
		if canonVal(lk.Index) != target && !sameLeaves(p, lk.Index, val) {
			return
		}
		for _, ref := range *lk.Referrers() {
			ex, isEx := ref.(*ssa.Extract)
			if !isEx || ex.Index != 1 {
				continue
			}
			if condTrueDominates(fn, ex, ins) {
				ok = true
			}
		}
	})
	if ok {
		return true
	}
	// the membership test lives in a predicate method (isMember(id)): the call's result guards ins
	allInstrs(fn, func(x ssa.Instruction) {
		c, isC := x.(*ssa.Call)
		if !isC {
			return
		}
		cf := c.Call.StaticCallee()
		if cf == nil || !p.Analysed(cf) || cf.Blocks == nil {
			return
		}
		idx, isPred := memberPredicate(p, cf)
		if !isPred || idx >= len(c.Call.Args) {
			return
		}
		if a := c.Call.Args[idx]; canonVal(a) != target && !sameLeaves(p, a, val) {
			return
		}
		if condTrueDominates(fn, c, ins) {
			ok = true
		}
	})
	return ok
}

// memberPredicate: cf returns, on every path, the found flag of a comma-ok lookup of one of its parameters in the
// member map and nothing else; the index of that parameter.
func memberPredicate(p *Prog, cf *ssa.Function) (int, bool) {
	if cf.Signature.Results().Len() != 1 {
		return 0, false
	}
	idx, n := -1, 0
	bad := false
	allInstrs(cf, func(x ssa.Instruction) {
		ret, isRet := x.(*ssa.Return)
		if !isRet || len(ret.Results) != 1 {
			return
		}
		n++
		ex, isEx := canonVal(ret.Results[0]).(*ssa.Extract)
		if !isEx || ex.Index != 1 {
			bad = true
			return
		}
		lk, isL := ex.Tuple.(*ssa.Lookup)
		if !isL || !lk.CommaOk || !hasLeafPrefix(p.Leaves(lk.X, provOpts{}), "field:"+muPkg+".Transport.transportMap") {
			bad = true
			return
		}
		prm, isP := canonVal(lk.Index).(*ssa.Parameter)
		if !isP {
			bad = true
			return
		}
		for i, q := range cf.Params {
			if q == prm {
				if idx >= 0 && idx != i {
					bad = true
				}
				idx = i
			}
		}
	})
	return idx, n > 0 && !bad && idx >= 0
}

// memberGuardedDeep: as memberGuarded; when the value is a parameter of an unexported helper (selectTransport(id)),
// the membership test may sit at the call sites instead: every static call of the helper is then guarded for its argument.
func memberGuardedDeep(p *Prog, fn *ssa.Function, ins ssa.Instruction, val ssa.Value, depth int) bool {
	if memberGuarded(p, fn, ins, val) {
		return true
	}
	prm, isP := canonVal(val).(*ssa.Parameter)
	if !isP || depth >= 2 || prm.Parent() != fn || fn.Parent() != nil || (fn.Object() != nil && fn.Object().Exported()) {
		return false
	}
	idx := -1
	for i, q := range fn.Params {
		if q == prm {
			idx = i
		}
	}
	sites := p.staticCallSites(fn)
	if idx < 0 || len(sites) == 0 {
		return false
	}
	for _, site := range sites {
		cc := instrCall(site)
		if cc == nil || idx >= len(cc.Args) {
			return false
		}
		if _, isCall := site.(*ssa.Call); !isCall {
			return false // go / defer: not evaluated on the found edge in any useful sense
		}
		if !memberGuardedDeep(p, site.Parent(), site, cc.Args[idx], depth+1) {
			return false
		}
	}
	return true
}

func sameLeaves(p *Prog, a, b ssa.Value) bool {
	la, lb := p.Leaves(a, provOpts{}), p.Leaves(b, provOpts{})
	return len(la) > 0 && joinLeaves(la) == joinLeaves(lb)
}

func ruleC19U1(r *Run) {
	r.Begin("U1", "selection stays a member: each store to Transport.currentTransportID after construction is dominated by the found edge of a comma-ok lookup of the stored id in the member map; the constructor path validates InitialTransportID against the map and returns an error when it is absent", 2)
	p := r.P
	f := r.field(muPkg, "Transport", "currentTransportID")
	if f == nil {
		return
	}
	n := 0
	for _, st := range p.fieldStores(f) {
		fn := st.Parent()
		name := fnName(fn)
		fa := st.Addr.(*ssa.FieldAddr)
		if isLocalObject(pathOf(fa.X)) {
			// constructor: the initial id must have been validated before
			n++
			l := p.Leaves(st.Val, provOpts{})
			okSrc := hasLeaf(l, "field:"+muPkg+".TransportConfig.InitialTransportID")
			// a validation function called earlier in the constructor contains the membership test with an error return
			okVal := false
			allInstrs(fn, func(ins ssa.Instruction) {
				c, isCall := ins.(*ssa.Call)
				if !isCall || !dominatesInstr(c, st) {
					return
				}
				cf := c.Call.StaticCallee()
				if cf == nil || !p.Analysed(cf) {
					return
				}
				if !guardedByNilErr(c, st) {
					return
				}
				allInstrs(cf, func(x ssa.Instruction) {
					lk, isL := x.(*ssa.Lookup)
					if !isL || !lk.CommaOk || lk.Referrers() == nil {
						return
					}
					il := p.Leaves(lk.Index, provOpts{})
					ml := p.Leaves(lk.X, provOpts{})
					if !hasLeaf(il, "field:"+muPkg+".TransportConfig.InitialTransportID") || !hasLeaf(ml, "field:"+muPkg+".TransportConfig.TransportMap") {
						return
					}
					for _, ref := range *lk.Referrers() {
						if ex, isEx := ref.(*ssa.Extract); isEx && ex.Index == 1 {
							allInstrs(cf, func(y ssa.Instruction) {
								if ifs, isIf := y.(*ssa.If); isIf && sameValue(ifs.Cond, ex) {
									// not-found edge returns a non-nil error
									for _, z := range ifs.Block().Succs[1].Instrs {
										if ret, isRet := z.(*ssa.Return); isRet && nonNilErrReturn(ret) {
											okVal = true
										}
									}
								}
							})
						}
					}
				})
			})
			r.Check(name+" initial id validated", okSrc && okVal, p.pos(st.Pos()), name, fmt.Sprintf("initial selection from the configuration: %v; validated against the member map with an error for an absent id: %v", okSrc, okVal))
			continue
		}
		n++
		r.Check(name+" selection is a member", memberGuardedDeep(p, fn, st, st.Val, 0), p.pos(st.Pos()), name, "the id written to currentTransportID must have been looked up in transportMap (comma-ok) on the found edge; an unknown or empty id makes the next Write call a method on a nil interface")
	}
	if n < 2 {
		r.Undecided("stores to currentTransportID", fmt.Sprintf("%d found", n))
	}
}

func ruleC19U2(r *Run) {
	r.Begin("U2", "all members: CloseWithStatus, RxBytesCounterValue and TxBytesCounterValue range over Transport.transportMap and no path leaves the loop before the map is exhausted", 3)
	p := r.P
	for _, m := range []string{"CloseWithStatus", "RxBytesCounterValue", "TxBytesCounterValue"} {
		fn := r.method(muPkg, "Transport", m)
		if fn == nil {
			continue
		}
		name := fnName(fn)
		var rng *ssa.Range
		allInstrs(fn, func(ins ssa.Instruction) {
			if x, ok := ins.(*ssa.Range); ok && hasLeaf(p.Leaves(x.X, provOpts{}), "field:"+muPkg+".Transport.transportMap") {
				rng = x
			}
		})
		if rng == nil {
			// the loop lives in a helper that applies a function handed to it to every member
			// (sumCounter(transport.Transport.RxBytesCounterValue)): the helper ranges over the whole map without an
			// early exit and calls its parameter inside the loop, and the function handed in is the member method of
			// the same name as this method
			okH := false
			detail := "the method does not range over transportMap"
			allInstrs(fn, func(ins ssa.Instruction) {
				c, isC := ins.(*ssa.Call)
				if !isC {
					return
				}
				h := c.Call.StaticCallee()
				if h == nil || !p.Analysed(h) || h.Blocks == nil || fnPkgPath(h) != modPath+muPkg {
					return
				}
				for i, a := range c.Call.Args {
					if _, isSig := a.Type().Underlying().(*types.Signature); !isSig || i >= len(h.Params) {
						continue
					}
					// the function handed in
					var handed *ssa.Function
					switch x := a.(type) {
					case *ssa.Function:
						handed = x
					case *ssa.MakeClosure:
						handed, _ = x.Fn.(*ssa.Function)
					}
					if handed == nil {
						continue
					}
					target := handed.Name()
					if handed.Synthetic != "" {
						// a thunk or bound-method wrapper: the method it forwards to
						allInstrs(handed, func(y ssa.Instruction) {
							if cc := instrCall(y); cc != nil && cc.IsInvoke() {
								target = cc.Method.Name()
							} else if cc != nil && cc.StaticCallee() != nil {
								target = cc.StaticCallee().Name()
							}
						})
					}
					// the helper: range over the members, parameter invoked in the loop, no early return
					prm := ssa.Value(h.Params[i])
					ranges, invoked, early := false, false, false
					allInstrs(h, func(y ssa.Instruction) {
						if x, ok := y.(*ssa.Range); ok && hasLeaf(p.Leaves(x.X, provOpts{}), "field:"+muPkg+".Transport.transportMap") {
							ranges = true
						}
						if cc := instrCall(y); cc != nil && canonVal(cc.Value) == prm && inLoop(y) {
							invoked = true
						}
						if _, isRet := y.(*ssa.Return); isRet && inLoop(y) {
							early = true
						}
					})
					if ranges && invoked && !early {
						okH = target == m
						detail = fmt.Sprintf("%s applies %s to every member (wanted: %s)", fnName(h), target, m)
					}
				}
			})
			r.Check(name+" visits every member", okH, p.pos(fn.Pos()), name, detail)
			continue
		}
		// the loop: blocks that can reach the Next instruction again. A return inside the loop body = early exit.
		var next *ssa.Next
		if rng.Referrers() != nil {
			for _, ref := range *rng.Referrers() {
				if nx, ok := ref.(*ssa.Next); ok {
					next = nx
				}
			}
		}
		early := false
		if next != nil {
			// the exit edge: If on extract#0 (ok) false successor. Any Return not dominated by that successor is an early exit.
			var done *ssa.BasicBlock
			if next.Referrers() != nil {
				for _, ref := range *next.Referrers() {
					if ex, ok := ref.(*ssa.Extract); ok && ex.Index == 0 && ex.Referrers() != nil {
						for _, r2 := range *ex.Referrers() {
							if ifs, ok := r2.(*ssa.If); ok {
								done = ifs.Block().Succs[1]
							}
						}
					}
				}
			}
			once := onceGuardHeads(fn)
			allInstrs(fn, func(ins ssa.Instruction) {
				if ret, ok := ins.(*ssa.Return); ok && done != nil && ret.Block() != fn.Recover {
					for _, h := range once {
						if h == ret.Block() || h.Dominates(ret.Block()) {
							return // a second Close: the first one visits the members
						}
					}
					if !(done == ret.Block() || done.Dominates(ret.Block())) {
						early = true
					}
				}
			})
			if done == nil {
				early = true
			}
		}
		// each member is acted on: Close/CloseWithStatus or counter read inside the loop
		acts := false
		allInstrs(fn, func(ins ssa.Instruction) {
			n := callName(ins)
			isAct := func(n string) bool {
				return strings.HasPrefix(n, "/transport.") && (strings.HasSuffix(n, ".Close") || strings.HasSuffix(n, ".CloseWithStatus") || strings.HasSuffix(n, "BytesCounterValue"))
			}
			if isAct(n) && inLoop(ins) {
				acts = true
			}
			// the per-member action moved into a helper that is called inside the loop with the member
			if cc := instrCall(ins); cc != nil && inLoop(ins) {
				if cal := cc.StaticCallee(); cal != nil && p.Analysed(cal) && cal.Blocks != nil {
					for i, a := range cc.Args {
						if i >= len(cal.Params) || !hasLeafPrefix(p.Leaves(a, provOpts{}), "rangeval:") {
							continue
						}
						prm := ssa.Value(cal.Params[i])
						onEvery := true
						found := false
						allInstrs(cal, func(x ssa.Instruction) {
							if c2 := instrCall(x); c2 != nil && c2.IsInvoke() && isAct(callName(x)) {
								recv := canonVal(c2.Value)
								if ta, isTA := recv.(*ssa.TypeAssert); isTA {
									recv = canonVal(ta.X)
								}
								if ex, isEx := recv.(*ssa.Extract); isEx {
									if ta, isTA := ex.Tuple.(*ssa.TypeAssert); isTA {
										recv = canonVal(ta.X)
									}
								}
								if recv == prm {
									found = true
								}
							}
						})
						// every return of the helper is preceded by one of the actions
						if w := reachesFromEntryWithout(cal, isReturn, func(x ssa.Instruction) bool {
							c2 := instrCall(x)
							return c2 != nil && c2.IsInvoke() && isAct(callName(x))
						}); w != nil {
							onEvery = false
						}
						if found && onEvery {
							acts = true
						}
					}
				}
			}
		})
		r.Check(name+" visits every member", !early && acts, p.pos(fn.Pos()), name, fmt.Sprintf("early exit from the range loop: %v; acts on each member inside the loop: %v", early, acts))
	}
}

// ruleC19U3: access-path nilness.
func ruleC19U3(r *Run) {
	r.Begin("U3", "nil-checked then dereferenced: in package transport/multi, on the edge where an access path (a field or parameter) compared equal to nil, no later load of the same path is dereferenced (field address, method call) before a store to it", 1)
	p := r.P
	nChecks := 0
	for _, fn := range p.Funcs {
		if fnPkgPath(fn) != modPath+muPkg {
			continue
		}
		name := fnName(fn)
		allInstrs(fn, func(ins ssa.Instruction) {
			ifs, ok := ins.(*ssa.If)
			if !ok {
				return
			}
			bo, ok := ifs.Cond.(*ssa.BinOp)
			if !ok || (bo.Op != token.EQL && bo.Op != token.NEQ) {
				return
			}
			var v ssa.Value
			if isNilConst(bo.Y) {
				v = bo.X
			} else if isNilConst(bo.X) {
				v = bo.Y
			}
			if v == nil {
				return
			}
			if _, isPtr := v.Type().Underlying().(*types.Pointer); !isPtr {
				return
			}
			pt := pathOf(v)
			if pt == nil || len(pt.Fields) == 0 {
				return
			}
			nChecks++
			nilSucc := ifs.Block().Succs[0]
			if bo.Op == token.NEQ {
				nilSucc = ifs.Block().Succs[1]
			}
			if len(nilSucc.Preds) != 1 {
				return
			}
			key := pt.String()
			// walk the blocks dominated by nilSucc (single-pred chain) until a store to the path
			var bad ssa.Instruction
			seen := map[*ssa.BasicBlock]bool{}
			var walk func(b *ssa.BasicBlock)
			walk = func(b *ssa.BasicBlock) {
				if seen[b] || bad != nil {
					return
				}
				seen[b] = true
				for _, x := range b.Instrs {
					if st, isSt := x.(*ssa.Store); isSt {
						if sp := pathOf(st.Addr); sp != nil && sp.String() == key {
							return // reassigned
						}
					}
					// a dereference of a value whose path equals key
					var base ssa.Value
					switch y := x.(type) {
					case *ssa.FieldAddr:
						base = y.X
					case *ssa.Call:
						if !y.Call.IsInvoke() && len(y.Call.Args) > 0 && y.Call.StaticCallee() != nil && y.Call.StaticCallee().Signature.Recv() != nil {
							// method call on a nil pointer receiver is legal in Go; only field access counts
						}
					}
					if base != nil {
						if bp := pathOf(base); bp != nil && bp.String() == key {
							if _, isPtr := base.Type().Underlying().(*types.Pointer); isPtr {
								bad = x
								return
							}
						}
					}
				}
				for _, s := range b.Succs {
					if nilSucc.Dominates(s) {
						walk(s)
					}
				}
			}
			walk(nilSucc)
			r.Check(fmt.Sprintf("%s %s", name, key), bad == nil, posOf(p, ifs), name, "on the edge where "+key+" == nil, a field of it is accessed at "+posOf(p, bad)+" (certain nil dereference)")
		})
	}
	r.Stat("nil_comparisons_of_paths", nChecks)
}

func ruleC19U4(r *Run, le *LockEngine) {
	r.Begin("U4", "merge queue: the read loop starts one goroutine per member (a go statement inside the range over transportMap) that reads from that member and posts to the single readResCh; Read takes only from readResCh; Write uses the member selected by currentTransportID under the read lock", 3)
	p := r.P
	rl := r.method(muPkg, "Transport", "readLoop")
	if rl != nil {
		name := fnName(rl)
		ok := false
		failing := ""
		// a reader is started per member: a go statement, or errgroup.Group.Go, inside the range over the members;
		// its body (the function literal, or the method it merely calls) reads from the member and posts to readResCh
		var readsAndPosts func(f *ssa.Function, d int) (bool, bool)
		readsAndPosts = func(f *ssa.Function, d int) (reads, posts bool) {
			if f == nil || f.Blocks == nil || d > 2 {
				return
			}
			reads = len(findCalls(f, false, "/transport.Transport.Read", "/transport.Reader.Read", "/transport.ReadWriter.Read")) > 0
			allInstrs(f, func(x ssa.Instruction) {
				if cc := instrCall(x); cc != nil {
					for _, a := range cc.Args {
						if hasLeaf(p.Leaves(a, provOpts{}), "field:"+muPkg+".Transport.readResCh") {
							posts = true
						}
					}
					if cal := cc.StaticCallee(); cal != nil && p.Analysed(cal) && fnPkgPath(cal) == modPath+muPkg {
						r2, p2 := readsAndPosts(cal, d+1)
						reads, posts = reads || r2, posts || p2
					}
				}
			})
			return
		}
		allInstrs(rl, func(ins ssa.Instruction) {
			var body *ssa.Function
			viaGroup := false
			switch x := ins.(type) {
			case *ssa.Go:
				if !inLoop(x) {
					return
				}
				body = closureOf(x.Call.Value)
				if body == nil {
					body = x.Call.StaticCallee()
				}
			case *ssa.Call:
				if !inLoop(x) || !isCallNamed(x, "golang.org/x/sync/errgroup.Group.Go") || len(x.Call.Args) < 2 {
					return
				}
				body = closureOf(x.Call.Args[1])
				viaGroup = true
			}
			if body == nil {
				return
			}
			if rd, ps := readsAndPosts(body, 0); rd && ps {
				ok = true
			}
			// in an errgroup with a derived context the first non-nil error cancels every other reader: a member
			// reader must end with nil whatever happened to its member
			if viaGroup {
				var bad func(f *ssa.Function, d int)
				bad = func(f *ssa.Function, d int) {
					if f == nil || f.Blocks == nil || d > 2 {
						return
					}
					allInstrs(f, func(y ssa.Instruction) {
						ret, isRet := y.(*ssa.Return)
						if !isRet || len(ret.Results) == 0 {
							return
						}
						rv := retResults(ret)[len(ret.Results)-1]
						if isNilConst(rv) {
							return
						}
						if c2, isCall := rv.(*ssa.Call); isCall {
							if cal := c2.Call.StaticCallee(); cal != nil && p.Analysed(cal) {
								bad(cal, d+1)
								return
							}
						}
						failing = posOf(p, ret)
					})
				}
				bad(body, 0)
			}
		})
		if failing != "" {
			ok = false
		}
		r.Check(name+" one reader per member", ok, p.pos(rl.Pos()), name, "a goroutine per member reads from it and posts to readResCh; a reader run in an errgroup returns nil on every path (a non-nil error at "+failing+" would cancel the readers of the healthy members)")
	}
	rd := r.method(muPkg, "Transport", "Read")
	if rd != nil {
		ok := false
		allInstrs(rd, func(ins ssa.Instruction) {
			if cc := instrCall(ins); cc != nil {
				for _, a := range cc.Args {
					if hasLeaf(p.Leaves(a, provOpts{}), "field:"+muPkg+".Transport.readResCh") {
						ok = true
					}
				}
			}
		})
		r.Check(fnName(rd)+" reads the merge queue", ok, p.pos(rd.Pos()), fnName(rd), "Read takes from readResCh")
	}
	wr := r.method(muPkg, "Transport", "Write")
	if wr != nil {
		ok := false
		for _, c := range findCalls(wr, false, "/transport.Transport.Write", "/transport.Writer.Write", "/transport.ReadWriter.Write") {
			l := p.Leaves(instrCall(c).Args[0], provOpts{})
			_ = l
			vl := p.Leaves(instrCall(c).Value, provOpts{})
			if hasLeaf(vl, "elem:"+muPkg+".Transport.transportMap") {
				// key is currentTransportID
				if lk, isL := canonVal(instrCall(c).Value).(*ssa.Lookup); isL {
					if hasLeaf(p.Leaves(lk.Index, provOpts{}), "field:"+muPkg+".Transport.currentTransportID") {
						ok = true
					}
				}
			}
		}
		if !ok {
			// or the write is a function literal run by a helper that hands it the selected member
			// (onCurrent(m, func(cur transport.Transport) error { return cur.Write(bs) })): the argument at the helper's
			// invocation is transportMap[currentTransportID]
			for _, cl := range wr.AnonFuncs {
				for _, c := range findCalls(cl, false, "/transport.Transport.Write", "/transport.Writer.Write", "/transport.ReadWriter.Write") {
					prm, isP := canonVal(instrCall(c).Value).(*ssa.Parameter)
					if !isP || prm.Parent() != cl {
						continue
					}
					idx := -1
					for i, q := range cl.Params {
						if q == prm {
							idx = i
						}
					}
					allInstrs(wr, func(ins ssa.Instruction) {
						call, isCall := ins.(*ssa.Call)
						if !isCall {
							return
						}
						for _, ic := range invokedClosureArgs(p, &call.Call) {
							if ic.closure != cl {
								continue
							}
							for _, site := range ic.sites {
								args := instrCall(site).Args
								if idx < 0 || idx >= len(args) {
									continue
								}
								if lk, isL := canonVal(args[idx]).(*ssa.Lookup); isL && hasLeaf(p.Leaves(lk.X, provOpts{}), "field:"+muPkg+".Transport.transportMap") &&
									hasLeaf(p.Leaves(lk.Index, provOpts{}), "field:"+muPkg+".Transport.currentTransportID") {
									ok = true
								}
							}
						}
					})
				}
			}
		}
		if !ok {
			// or to a copy of the selection kept in a field of the transport: the field is loaded with the transport's
			// mutex held, and every store into it is a member (an element of a transport map) stored under that mutex
			// in write mode, or into an object under construction
			for _, c := range findCalls(wr, false, "/transport.Transport.Write", "/transport.Writer.Write", "/transport.ReadWriter.Write") {
				ld, isU := canonVal(instrCall(c).Value).(*ssa.UnOp)
				if !isU || ld.Op != token.MUL {
					continue
				}
				fk := fieldKeyOfAddr(ld.X)
				if !strings.HasPrefix(fk, muPkg+".Transport.") {
					continue
				}
				heldAtLoad := false
				for k := range le.HeldAt(ld) {
					if strings.HasSuffix(k, ".mu") {
						heldAtLoad = true
					}
				}
				if !heldAtLoad {
					continue
				}
				stores, good := 0, true
				for _, g := range p.Funcs {
					if fnPkgPath(g) != modPath+muPkg {
						continue
					}
					for _, st := range storesIn(g, fk) {
						stores++
						member := false
						for _, l := range p.Leaves(st.Val, provOpts{}) {
							if strings.HasPrefix(l, "elem:"+muPkg+".") && strings.Contains(l, "ransportMap") {
								member = true
							}
						}
						locked := false
						for k, m := range le.HeldAt(st) {
							if strings.HasSuffix(k, ".mu") && m == modeW {
								locked = true
							}
						}
						if fa, isFA := st.Addr.(*ssa.FieldAddr); isFA && isLocalObject(pathOf(fa.X)) {
							locked = true
						}
						if !member || !locked {
							good = false
						}
					}
				}
				if stores > 0 && good {
					ok = true
				}
			}
		}
		if !ok {
			// or to the member the scheduler published: *F.Load() of an atomic.Pointer field F of the transport into
			// which only addresses of variables holding a member (an element of a transport map) are stored
			for _, c := range findCalls(wr, false, "/transport.Transport.Write", "/transport.Writer.Write", "/transport.ReadWriter.Write") {
				u, isU := canonVal(instrCall(c).Value).(*ssa.UnOp)
				if !isU || u.Op != token.MUL {
					continue
				}
				ld, isC := u.X.(*ssa.Call)
				if !isC || len(ld.Call.Args) == 0 {
					continue
				}
				if o := calleeObj(&ld.Call); o == nil || o.Pkg() == nil || o.Pkg().Path() != "sync/atomic" || o.Name() != "Load" {
					continue
				}
				fk := fieldKeyOfAddr(ld.Call.Args[0])
				if !strings.HasPrefix(fk, muPkg+".Transport.") {
					continue
				}
				stores, good := 0, true
				for _, g := range p.Funcs {
					if fnPkgPath(g) != modPath+muPkg {
						continue
					}
					allInstrs(g, func(x ssa.Instruction) {
						cc := instrCall(x)
						if cc == nil || len(cc.Args) < 2 || fieldKeyOfAddr(cc.Args[0]) != fk {
							return
						}
						if o := calleeObj(cc); o == nil || o.Pkg() == nil || o.Pkg().Path() != "sync/atomic" || o.Name() != "Store" {
							return
						}
						stores++
						a, isA := cc.Args[1].(*ssa.Alloc)
						if !isA || a.Referrers() == nil {
							good = false
							return
						}
						for _, ref := range *a.Referrers() {
							if st, isSt := ref.(*ssa.Store); isSt && st.Addr == ssa.Value(a) {
								member := false
								for _, l := range p.Leaves(st.Val, provOpts{}) {
									if strings.HasPrefix(l, "elem:"+muPkg+".") && strings.Contains(l, "ransportMap") {
										member = true
									}
								}
								if !member {
									good = false
								}
							}
						}
					})
				}
				if stores > 0 && good {
					ok = true
				}
			}
		}
		r.Check(fnName(wr)+" writes to the selected member", ok, p.pos(wr.Pos()), fnName(wr), "Write goes to transportMap[currentTransportID] (or to the member published through an atomic pointer)")
	}
}

// ruleCloseNotBehindIO: Close must be able to interrupt a member operation that is stuck, so it cannot queue behind the
// lock that operation holds. Locks held across a call of a member's Read/Write (an interface call that can block for
// as long as the link stalls) are I/O locks; no close function of the transport packages acquires one in a mode that
// conflicts with the holder.
func ruleCloseNotBehindIO(r *Run, le *LockEngine, id string) {
	r.Begin(id, "Close does not wait behind a stalled write: a lock that a transport holds across a member's Read/Write/WriteUnreliable (interface call) is never acquired in a conflicting mode by a Close/CloseWithStatus of the transport packages or their helpers — closing the members is what releases the stalled call", 1)
	p := r.P
	ioNames := map[string]bool{"Write": true, "Read": true, "WriteUnreliable": true, "ReadUnreliable": true, "Writer": true, "Reader": true, "SendDatagram": true, "ReceiveDatagram": true}
	type hold struct {
		mode  int
		where string
	}
	io := map[*types.Var]hold{}
	inTransport := func(fn *ssa.Function) bool {
		return strings.HasPrefix(fnPkgPath(fn), modPath+"/transport") && fn.Blocks != nil
	}
	for _, fn := range p.Funcs {
		if !inTransport(fn) {
			continue
		}
		fi := le.Info(fn)
		allInstrs(fn, func(ins ssa.Instruction) {
			c, ok := ins.(*ssa.Call)
			if !ok || !c.Call.IsInvoke() || !ioNames[c.Call.Method.Name()] {
				return
			}
			for k, m := range le.HeldAt(c) {
				if f := fi.keyField[k]; f != nil {
					if old, seen := io[f]; !seen || m > old.mode {
						io[f] = hold{m, fnName(fn) + " (" + p.pos(c.Pos()) + ")"}
					}
				}
			}
		})
	}
	r.Stat("locks_held_across_member_io", len(io))
	n := 0
	for _, fn := range p.Funcs {
		if !inTransport(fn) || fn.Signature.Recv() == nil {
			continue
		}
		nm := strings.ToLower(fn.Name())
		if !strings.HasPrefix(nm, "close") {
			continue
		}
		name := fnName(fn)
		seen := map[*ssa.Function]bool{}
		var bad string
		var badAt ssa.Instruction
		var visit func(f *ssa.Function, d int)
		visit = func(f *ssa.Function, d int) {
			if f == nil || seen[f] || f.Blocks == nil || d > 3 {
				return
			}
			seen[f] = true
			allInstrs(f, func(ins ssa.Instruction) {
				cc := instrCall(ins)
				if cc == nil {
					return
				}
				if op, recv := classifyLockCall(cc); op == opLock || op == opRLock {
					if pt := pathOf(recv); pt != nil {
						if h, isIO := io[pt.Last()]; isIO && (op == opLock || h.mode == modeW) {
							bad = fmt.Sprintf("%s is held across member I/O in %s", pt.Last().Name(), h.where)
							badAt = ins
						}
					}
					return
				}
				if _, isGo := ins.(*ssa.Go); isGo {
					return
				}
				if cal := cc.StaticCallee(); cal != nil && inTransport(cal) {
					visit(cal, d+1)
				}
			})
		}
		visit(fn, 0)
		n++
		where := p.pos(fn.Pos())
		if badAt != nil {
			where = posOf(p, badAt)
		}
		r.Check(name+" takes no I/O lock", bad == "", where, name, "Close acquires a lock that a blocked member write holds ("+bad+"): with the link stalled Close never reaches the members it has to close")
	}
	if n == 0 {
		r.Undecided("close functions", "no Close method found in the transport packages")
	}
}
