// mutgen enumerates small type-aware source mutations of the repository (development aid: mutation sweep of the
// checker, see DESIGN.md §5.7). It prints one JSON object per line: file, byte range, replacement, operator.
package main

import (
	"encoding/json"
	"flag"
	"fmt"
	"go/ast"
	"go/token"
	"go/types"
	"os"
	"path/filepath"
	"sort"
	"strconv"
	"strings"

	"golang.org/x/tools/go/packages"
)

type Mut struct {
	ID    string `json:"id"`
	File  string `json:"file"`
	Start int    `json:"start"`
	End   int    `json:"end"`
	New   string `json:"new"`
	Op    string `json:"op"`
	Func  string `json:"func"`
	Line  int    `json:"line"`
	Desc  string `json:"desc"`
	Pkg   string `json:"pkg"`
}

func main() {
	repo := flag.String("repo", "/repo", "repository")
	flag.Parse()
	prefixes := flag.Args()
	cfg := &packages.Config{Mode: packages.NeedName | packages.NeedFiles | packages.NeedCompiledGoFiles | packages.NeedSyntax | packages.NeedTypes | packages.NeedTypesInfo | packages.NeedImports | packages.NeedDeps, Dir: *repo, Env: append(os.Environ(), "GOFLAGS=-mod=mod", "GOPROXY=off", "GOWORK=off")}
	pkgs, err := packages.Load(cfg, "./...")
	if err != nil {
		fmt.Fprintln(os.Stderr, err)
		os.Exit(2)
	}
	var out []Mut
	for _, pk := range pkgs {
		for i, f := range pk.Syntax {
			name := pk.Fset.Position(f.Pos()).Filename
			_ = i
			rel, _ := filepath.Rel(*repo, name)
			if strings.HasSuffix(rel, "_test.go") || strings.Contains(rel, "mock") || strings.Contains(rel, "autogen") || strings.Contains(rel, ".pb.") {
				continue
			}
			ok := len(prefixes) == 0
			for _, p := range prefixes {
				if strings.HasPrefix(rel, p) {
					ok = true
				}
			}
			if !ok {
				continue
			}
			src, _ := os.ReadFile(name)
			g := &gen{pk: pk, fset: pk.Fset, src: src, rel: rel}
			for _, d := range f.Decls {
				fd, isFn := d.(*ast.FuncDecl)
				if !isFn || fd.Body == nil {
					continue
				}
				g.fn = fd.Name.Name
				if fd.Recv != nil && len(fd.Recv.List) > 0 {
					g.fn = types.ExprString(fd.Recv.List[0].Type) + "." + fd.Name.Name
				}
				g.walk(fd.Body)
			}
			out = append(out, g.out...)
		}
	}
	sort.SliceStable(out, func(i, j int) bool {
		if out[i].File != out[j].File {
			return out[i].File < out[j].File
		}
		return out[i].Start < out[j].Start
	})
	enc := json.NewEncoder(os.Stdout)
	for i := range out {
		out[i].ID = fmt.Sprintf("m%05d", i)
		enc.Encode(out[i])
	}
}

type gen struct {
	pk   *packages.Package
	fset *token.FileSet
	src  []byte
	rel  string
	fn   string
	out  []Mut
}

func (g *gen) off(p token.Pos) int { return g.fset.Position(p).Offset }
func (g *gen) text(n ast.Node) string {
	return string(g.src[g.off(n.Pos()):g.off(n.End())])
}
func (g *gen) add(op string, n ast.Node, repl, desc string) {
	g.addRange(op, n.Pos(), n.End(), repl, desc)
}
func (g *gen) addRange(op string, a, b token.Pos, repl, desc string) {
	g.out = append(g.out, Mut{File: g.rel, Start: g.off(a), End: g.off(b), New: repl, Op: op, Func: g.fn, Line: g.fset.Position(a).Line, Desc: desc, Pkg: g.pk.PkgPath})
}

func isLogCall(s string) bool {
	return strings.Contains(s, "logger.") || strings.Contains(s, "log.") || strings.Contains(s, "Logger.") || strings.HasPrefix(s, "fmt.Print")
}

func (g *gen) walk(body *ast.BlockStmt) {
	info := g.pk.TypesInfo
	ast.Inspect(body, func(n ast.Node) bool {
		switch x := n.(type) {
		case *ast.ExprStmt:
			if c, ok := x.X.(*ast.CallExpr); ok {
				t := g.text(c)
				if !isLogCall(t) && !strings.HasPrefix(t, "panic(") {
					g.add("del-call", x, "", "delete call "+clip(t))
				}
			}
		case *ast.DeferStmt:
			g.add("del-defer", x, "", "delete "+clip(g.text(x)))
		case *ast.GoStmt:
			// keep goroutines
		case *ast.SendStmt:
			g.add("del-send", x, "", "delete send "+clip(g.text(x)))
		case *ast.AssignStmt:
			if x.Tok == token.ASSIGN && len(x.Lhs) == 1 {
				switch x.Lhs[0].(type) {
				case *ast.SelectorExpr, *ast.IndexExpr, *ast.StarExpr:
					g.add("del-store", x, "", "delete store "+clip(g.text(x)))
				}
			}
		case *ast.IncDecStmt:
			g.add("del-store", x, "", "delete "+clip(g.text(x)))
		case *ast.IfStmt:
			g.add("neg-if", x.Cond, "!("+g.text(x.Cond)+")", "negate condition "+clip(g.text(x.Cond)))
			// swallow: if err != nil { return … }
			if be, ok := x.Cond.(*ast.BinaryExpr); ok && be.Op == token.NEQ && g.text(be.Y) == "nil" && x.Else == nil && len(x.Body.List) > 0 {
				if _, isRet := x.Body.List[len(x.Body.List)-1].(*ast.ReturnStmt); isRet {
					if tv, ok := info.Types[be.X]; ok && types.Identical(tv.Type, types.Universe.Lookup("error").Type()) {
						g.add("swallow-err", x.Body, "{}", "ignore error "+clip(g.text(be.X)))
					}
				}
			}
		case *ast.BinaryExpr:
			var alt string
			switch x.Op {
			case token.LSS:
				alt = "<="
			case token.LEQ:
				alt = "<"
			case token.GTR:
				alt = ">="
			case token.GEQ:
				alt = ">"
			case token.LAND:
				alt = "||"
			case token.LOR:
				alt = "&&"
			case token.EQL:
				if g.text(x.Y) != "nil" {
					alt = "!="
				}
			case token.NEQ:
				if g.text(x.Y) != "nil" {
					alt = "=="
				}
			case token.ADD:
				if tv, ok := info.Types[x]; ok {
					if b, isB := tv.Type.Underlying().(*types.Basic); isB && b.Info()&types.IsInteger != 0 && tv.Value == nil {
						alt = "-"
					}
				}
			case token.SUB:
				if tv, ok := info.Types[x]; ok {
					if b, isB := tv.Type.Underlying().(*types.Basic); isB && b.Info()&types.IsInteger != 0 && tv.Value == nil {
						alt = "+"
					}
				}
			}
			if alt != "" {
				g.addRange("binop", x.OpPos, x.OpPos+token.Pos(len(x.Op.String())), alt, fmt.Sprintf("%s -> %s in %s", x.Op, alt, clip(g.text(x))))
			}
		case *ast.SelectorExpr:
			// field swap: x.f -> x.g where g is another field of the same struct with identical type
			if sel, ok := info.Selections[x]; ok && sel.Kind() == types.FieldVal {
				fv := sel.Obj().(*types.Var)
				if st, ok := deref(sel.Recv()).Underlying().(*types.Struct); ok && len(sel.Index()) == 1 {
					for i := 0; i < st.NumFields(); i++ {
						o := st.Field(i)
						if o != fv && !o.Embedded() && types.Identical(o.Type(), fv.Type()) && (o.Exported() || o.Pkg() == g.pk.Types) && !isTrivialType(o.Type()) {
							g.add("field-swap", x.Sel, o.Name(), fmt.Sprintf("%s -> .%s", clip(g.text(x)), o.Name()))
							break
						}
					}
				}
			}
			// Lock -> RLock
			if x.Sel.Name == "Lock" || x.Sel.Name == "Unlock" {
				if tv, ok := info.Types[x.X]; ok {
					if hasMethod(tv.Type, "RLock") {
						g.add("rlock", x.Sel, "R"+x.Sel.Name, clip(g.text(x))+" -> R"+x.Sel.Name)
					}
				}
			}
		case *ast.BasicLit:
			if x.Kind == token.INT {
				if v, err := strconv.ParseInt(x.Value, 0, 64); err == nil && v < 1000 {
					g.add("const-off", x, strconv.FormatInt(v+1, 10), fmt.Sprintf("%d -> %d", v, v+1))
				}
			}
		case *ast.CallExpr:
			// swap two adjacent non-constant arguments of identical type
			for i := 0; i+1 < len(x.Args); i++ {
				a, b := info.Types[x.Args[i]], info.Types[x.Args[i+1]]
				if a.Type != nil && b.Type != nil && types.Identical(a.Type, b.Type) && a.Value == nil && b.Value == nil && g.text(x.Args[i]) != g.text(x.Args[i+1]) {
					g.addRange("arg-swap", x.Args[i].Pos(), x.Args[i+1].End(), g.text(x.Args[i+1])+", "+g.text(x.Args[i]), "swap args in "+clip(g.text(x)))
					break
				}
			}
		case *ast.ReturnStmt:
			if len(x.Results) == 0 {
				g.add("del-return", x, "", "delete bare return")
			}
		case *ast.BranchStmt:
			if x.Tok == token.CONTINUE || x.Tok == token.BREAK {
				if x.Label == nil {
					alt := "break"
					if x.Tok == token.BREAK {
						alt = "continue"
					}
					_ = alt
				}
			}
		}
		return true
	})
}

func isTrivialType(t types.Type) bool { return false }

func deref(t types.Type) types.Type {
	if p, ok := t.Underlying().(*types.Pointer); ok {
		return p.Elem()
	}
	return t
}

func hasMethod(t types.Type, name string) bool {
	ms := types.NewMethodSet(t)
	if ms.Lookup(nil, name) != nil {
		return true
	}
	if _, isPtr := t.(*types.Pointer); !isPtr {
		ms = types.NewMethodSet(types.NewPointer(t))
		for i := 0; i < ms.Len(); i++ {
			if ms.At(i).Obj().Name() == name {
				return true
			}
		}
	}
	for i := 0; i < ms.Len(); i++ {
		if ms.At(i).Obj().Name() == name {
			return true
		}
	}
	return false
}

func clip(s string) string {
	s = strings.Join(strings.Fields(s), " ")
	if len(s) > 70 {
		return s[:70] + "…"
	}
	return s
}
